"""C09 — data files are read with their literal meaning.

Lean: Props/C09.lean — row round trip of the tokenizer for every legal notation / separation /
comment, line splitting, preamble dictionary, numeric conversion, error combination (ℝ).
Correspondence: DataSet.parse and DataSet(datafile=…) on all 139 bundled files (every row) and on
generated well-formed and malformed files versus Model/DataFile.lean + Scalar/GridPt (Float).
Numbers: the model returns exact decimals; the harness rounds them correctly (Fraction → float) and
compares bit-for-bit with what gepard loaded.

Ground truth (independent of the Lean model): for a generated file the generator's own data (which
literal it wrote into which column, which value it gave globally, which key names which column); for a
bundled file an independent reference reader of the same text (reference_desc / reference_rows /
reference_layout).  The real code is compared with the ground truth first: a disagreement there is a
violation with the file as the failing input, whatever the model says.  A disagreement between the code
and the model alone (code = ground truth) is a fault of the model: no failing input.  When the model
driver cannot be run, everything that rests on the ground truth still runs.
"""
import math
import re
from fractions import Fraction

import common
from common import f2hex, hex2f

NUMRE = re.compile(r'[-+]?(?:\d+\.?\d*|\.\d+)(?:[eE][-+]?\d+)?$')
INTRE = re.compile(r'[-+]?\d+$')
COLRE = re.compile(r'column([1-9]\d*)$')
# lepton charge that follows from the declared beam (datasets: e, e-, em = electron; e+, ep = positron)
CHARGE = {'e+': 1, 'ep': 1, 'e': -1, 'e-': -1, 'em': -1}
# layout field -> preamble key
ECOLS = (('etotal', 'y1error'), ('estat', 'y1errorstatistic'), ('estatP', 'y1errorstatisticplus'),
         ('estatM', 'y1errorstatisticminus'), ('esyst', 'y1errorsystematic'),
         ('esystP', 'y1errorsystematicplus'), ('esystM', 'y1errorsystematicminus'))
EFIELD = dict((k, f) for f, k in ECOLS)
ERRFIELDS = ('err', 'errplus', 'errminus', 'errstat', 'errsyst', 'errnorm')
DEG_UNITS = ('deg', 'degree', 'degrees')
RAD_UNITS = ('rad',)
NB_UNITS = ('nb/GeV^4', 'nb', '1', 'nb/GeV^2', 'nbarn/GeV^4')     # y units the loader keeps as they are
# combined errors, Python oracle: the code squares, adds at most six non-negative variances and takes a root: each term carries
# <= 3 roundings, the sum <= 5 more, the root halves that and adds one: < 6 ulp; the oracle itself < 2 ulp.  8 ulp = 9e-16
ORACLE_TOL = 1e-15
PB_UNIT = 'pb/GeV^4'                                               # the one it converts to nb (value / 1000)


def hx(s):
    return s.encode('utf-8').hex() or '-'


def unhx(s):
    return '' if s == '-' else bytes.fromhex(s).decode('utf-8')


def dec2float(tok):
    sg, m, e = tok.split(':')
    fr = Fraction(int(m)) * (Fraction(10) ** int(e))
    x = float(fr)
    return -x if sg == '-' else x


def canon_float(x):
    x = float(x)
    return 0.0 if x == 0 else x


def same_num(got, exp):
    """bit-for-bit equality of two numbers (-0.0 canonicalised to 0.0)"""
    if exp is None or isinstance(got, bool) or not isinstance(got, (int, float)):
        return False
    try:
        return f2hex(canon_float(got)) == f2hex(canon_float(exp))
    except (OverflowError, ValueError):
        return False


def differs(a, b, tol):
    """a, b: float or None; True when they differ by more than tol (relative)"""
    if (a is None) != (b is None):
        return True
    if a is None:
        return False
    if isinstance(a, bool) or not isinstance(a, (int, float)):
        return True
    if a == b:
        return False
    if not (math.isfinite(a) and math.isfinite(b)):
        return True
    return abs(a - b) > tol * max(abs(a), abs(b))


def parse_model_parse(out):
    t = out.split()
    assert t[0] == 'D'
    n = int(t[1])
    desc = [(unhx(t[2 + 2 * i]), unhx(t[3 + 2 * i])) for i in range(n)]
    i = 2 + 2 * n
    assert t[i] == 'G'
    nrows = int(t[i + 1])
    i += 2
    rows = []
    for _ in range(nrows):
        k = int(t[i])
        rows.append([canon_float(dec2float(x)) for x in t[i + 1:i + 1 + k]])
        i += 1 + k
    return desc, rows


def parse_model_layout(out):
    t = out.split()
    if t[0] == 'ERR':
        return t[1]
    oi = lambda s: None if s == 'N' else int(s)
    L = dict(observable=unhx(t[1]), in1charge=oi(t[2]), ycol=int(t[3]), etotal=oi(t[4]), estat=oi(t[5]),
             estatP=oi(t[6]), estatM=oi(t[7]), esyst=oi(t[8]), esystP=oi(t[9]), esystM=oi(t[10]),
             enorm=None if t[11] == 'N' else dec2float(t[11]))
    assert t[12] == 'A'
    n = int(t[13])
    i = 14
    axes = []
    for _ in range(n):
        name = unhx(t[i])
        if t[i + 1] == 'G':
            axes.append((name, 'G', dec2float(t[i + 2])))
        else:
            axes.append((name, 'C', int(t[i + 2])))
        i += 3
    L['axes'] = axes
    return L


def bundled_files():
    import importlib_resources
    from gepard.datasets import DIS, en2engamma, ep2epgamma, gammastarp2gammap, gammastarp2Mp
    out = []
    for res in (ep2epgamma, gammastarp2Mp, gammastarp2gammap, en2engamma, DIS):
        for f in sorted(importlib_resources.files(res).iterdir(), key=lambda p: p.name):
            if f.suffix == '.dat':
                out.append((res.__name__.split('.')[-1] + '/' + f.name, f.read_text(encoding='utf-8')))
    return out


# ---------------------------------------------------------------------------------------------
# generator of well-formed files
# ---------------------------------------------------------------------------------------------

def lit(rng, x=None, kind=None):
    """a legal literal; returns text (value = its decimal meaning)"""
    kind = kind or rng.choice(['int', 'dec', 'dec', 'dec', 'exp', 'exp', 'plus', 'dot', 'lead'])
    sign = rng.choice(['', '', '-'])
    if kind == 'int':
        return sign + str(rng.randint(0, 999))
    if kind == 'dec':
        return sign + '%d.%s' % (rng.randint(0, 99), ''.join(rng.choice('0123456789') for _ in range(rng.randint(1, 17))))
    if kind == 'exp':
        m = '%d.%s' % (rng.randint(1, 9), ''.join(rng.choice('0123456789') for _ in range(rng.randint(0, 15))))
        if rng.random() < 0.3:
            m = m.rstrip('.') if m.endswith('.') else m
            m = m.split('.')[0] if rng.random() < 0.5 else m
        return sign + m + rng.choice('eE') + rng.choice(['', '-', '+']) + '%02d' % rng.randint(0, 12)
    if kind == 'plus':
        return '+' + str(rng.randint(0, 50)) + rng.choice(['', '.5', '.25'])
    if kind == 'dot':
        return sign + str(rng.randint(0, 9)) + '.'
    return sign + '.' + str(rng.randint(0, 99999))


def rad_lit(rng):
    """an azimuthal angle written in radians (any legal notation)"""
    k = rng.random()
    sign = rng.choice(['', '', '', '-', '+'])
    if k < 0.55:
        return sign + '%d.%s' % (rng.randint(0, 6), ''.join(rng.choice('0123456789') for _ in range(rng.randint(1, 16))))
    if k < 0.7:
        return sign + '%d.%se%s' % (rng.randint(1, 9), ''.join(rng.choice('0123456789') for _ in range(rng.randint(0, 8))),
                                   rng.choice(['+00', '-01', '-1', '0', '-02']))
    if k < 0.8:
        return sign + str(rng.randint(0, 6))
    if k < 0.9:
        return sign + '.' + str(rng.randint(0, 99999))
    return sign + str(rng.randint(0, 6)) + '.'


def gen_file(rng, rep):
    """returns (text, meta, truth).  Well-formed per datasets/README + docs/source/data.rst.
    truth = what the generator wrote where: pre (key, value pairs in file order), grid_text (the literal of
    every cell), roles (what each column is), globals_ (kinematics given once in the preamble), layout (same
    shape as parse_model_layout gives, built from the generator's own variables), units and frame."""
    nl = rng.choice(['\n', '\n', '\r\n'])
    sep = lambda: rng.choice([' ', '  ', '\t', ' \t', '   ', '\t\t'])
    process = rng.choice(['ep2epgamma', 'ep2epgamma', 'en2engamma', 'gammastarp2gammap', 'dis', 'gammastarp2rho0p'])
    axes_pool = ['xB', 'Q2', 't', 'phi'] if process in ('ep2epgamma', 'en2engamma') else \
        (['xB', 'Q2'] if process == 'dis' else ['W', 'Q2', 't'])
    if rng.random() < 0.3 and 'phi' in axes_pool:
        axes_pool[axes_pool.index('phi')] = 'FTn'
    if rng.random() < 0.3 and 't' in axes_pool:
        axes_pool[axes_pool.index('t')] = 'tm'
    rng.shuffle(axes_pool)
    errlayout = rng.choice(['total', 'stat', 'stat+syst', 'stat+systpm', 'statpm+syst', 'all', 'stat+norm'])
    # ids collide on purpose (files loaded one after another in one session must not influence each other)
    frame = rng.choice(['Trento', 'BMK'])
    in1particle = rng.choice(['e', 'e-', 'e+', 'ep', 'em'])
    pre = [('id', str(rng.choice([2001, 2002, 2003]) if rng.random() < 0.4 else rng.randint(2000, 9999))), ('editor', 'verif'), ('collaboration', 'MOCK'),
           ('process', process), ('year', str(rng.randint(1990, 2030))),
           ('frame', frame),
           ('in1particle', in1particle), ('in2particle', 'p')]
    if process in ('ep2epgamma', 'en2engamma'):
        et = rng.choice(['fixed target', 'collider'])
        pre.append(('exptype', et))
        pre.append(('in1energy', lit(rng, kind=rng.choice(['dec', 'int'])).lstrip('-') or '5'))
        if et == 'collider':
            pre.append(('in2energy', str(rng.randint(100, 1000)) + rng.choice(['', '.', '.0'])))
        if rng.random() < 0.4:
            pre.append(('in1polarization', rng.choice(['+1', '-1', '1', '0.8'])))
    obs = rng.choice(['XUU', 'ALU', 'AC', 'XLU', 'X', 'DISF2'])
    yunit = rng.choice(['nb/GeV^4', 'pb/GeV^4', '1', 'nb'])
    pre.append(('y1name', obs))
    pre.append(('y1unit', yunit))
    roles = []
    globals_ = {}
    # the unit of an angle is stated as deg or rad (data.rst); bundled files also spell it 'degree'
    phiunit = rng.choice(['deg', 'deg', 'deg', 'rad', 'rad', 'rad', 'degree', 'degrees'])
    for i, a in enumerate(axes_pool, 1):
        pre.append(('x%dname' % i, a))
        pre.append(('x%dunit' % i, phiunit if a == 'phi' else ('1' if a in ('xB', 'FTn') else 'GeV^2')))
        if rng.random() < 0.3 and a not in ('phi',):
            v = {'xB': '0.%d' % rng.randint(1, 9), 'Q2': '%d.%d' % (rng.randint(1, 9), rng.randint(0, 9)),
                 't': '-0.%d' % rng.randint(1, 9), 'tm': '0.%d' % rng.randint(1, 9),
                 'W': '%d.5' % rng.randint(3, 90), 'FTn': str(rng.randint(-2, 3))}[a]
            if rng.random() < 0.3 and a != 'FTn':
                v = v.rstrip('0123456789') + '5'      # still contains '.'
            globals_[a] = v
            pre.append(('x%dvalue' % i, v))
        else:
            roles.append(('x', a, i))
    roles.append(('y', 'val', None))
    errkeys = {'total': ['y1error'], 'stat': ['y1errorstatistic'],
               'stat+syst': ['y1errorstatistic', 'y1errorsystematic'],
               'stat+systpm': ['y1errorstatistic', 'y1errorsystematicplus', 'y1errorsystematicminus'],
               'statpm+syst': ['y1errorstatisticplus', 'y1errorstatisticminus', 'y1errorsystematic'],
               'all': ['y1errorstatistic', 'y1errorstatisticplus', 'y1errorstatisticminus',
                       'y1errorsystematic', 'y1errorsystematicplus', 'y1errorsystematicminus'],
               'stat+norm': ['y1errorstatistic']}[errlayout]
    for k in errkeys:
        roles.append(('e', k, None))
    if rng.random() < 0.3:
        roles.append(('junk', 'extra', None))      # a column nobody references
    rng.shuffle(roles)
    # ground-truth layout, from the generator's own variables (0-based column indices)
    lay = dict(observable=obs, in1charge=CHARGE[in1particle], ycol=None, enorm=None,
               axes=[(a, 'G', int(v) if a == 'FTn' else float(v)) for a, v in globals_.items()])
    for f, _ in ECOLS:
        lay[f] = None
    for ci, (kind, name, i) in enumerate(roles, 1):
        if kind == 'x':
            pre.append(('x%dvalue' % i, 'column%d' % ci))
            lay['axes'].append((name, 'C', ci - 1))
        elif kind == 'y':
            pre.append(('y1value', 'column%d' % ci))
            lay['ycol'] = ci - 1
        elif kind == 'e':
            pre.append((name, 'column%d' % ci))
            lay[EFIELD[name]] = ci - 1
    if errlayout == 'stat+norm':
        nv = rng.choice(['0.03', '0.1', '.05'])
        pre.append(('y1errornormalization', nv))
        lay['enorm'] = float(nv)
    rng.shuffle(pre)
    lines = []
    for k, v in pre:
        if rng.random() < 0.1:
            lines.append('# ' + rng.choice(['comment', '### Section', 'x1value = column9 (commented out)']))
        if rng.random() < 0.08:
            lines.append('')
        lines.append(k + rng.choice([' = ', '=', ' =', '= ', '  =  ']) + v + rng.choice(['', '', ' ', '   # note']))
    lines.append('')
    nrows = rng.randint(1, 12)
    grid_text = []
    for r in range(nrows):
        toks = []
        for kind, name, i in roles:
            if kind == 'x':
                if name == 'xB':
                    t = '0.%d' % rng.randint(1, 9) if rng.random() < 0.7 else lit(rng, kind='exp').lstrip('-')
                    if NUMRE.match(t) and not (0 < float(t) < 1):
                        t = '0.25'
                elif name in ('Q2', 'W'):
                    t = lit(rng, kind=rng.choice(['dec', 'int', 'plus', 'dot'])).lstrip('-')
                    if float(t) <= 1.0:
                        t = '2.5'
                    if name == 'W':
                        t = str(float(t) + 3)
                elif name == 't':
                    t = '-' + lit(rng, kind=rng.choice(['dec', 'exp', 'lead'])).lstrip('-')
                    if float(t) == 0:
                        t = '-0.1'
                elif name == 'tm':
                    t = lit(rng, kind=rng.choice(['dec', 'exp', 'lead'])).lstrip('-')
                elif name == 'FTn':
                    t = str(rng.randint(-3, 3))
                elif phiunit in RAD_UNITS:
                    t = rad_lit(rng)
                else:
                    t = lit(rng, kind=rng.choice(['dec', 'int', 'plus']))
            elif kind == 'e':
                t = lit(rng).lstrip('-')
            else:
                t = lit(rng)
            toks.append(t)
        line = rng.choice(['', '', ' ', '\t', '   ']) + toks[0]
        for t in toks[1:]:
            line += sep() + t
        line += rng.choice(['', '', ' ', '\t', '  ', ' # eol comment', '\t#c'])
        if len(toks) == 1 and not line.rstrip('\r\n').endswith((' ', '\t')) and '#' not in line:
            line += ' '
        grid_text.append(toks)
        lines.append(line)
        if rng.random() < 0.1:
            lines.append('# comment between rows')
    text = nl.join(lines) + rng.choice([nl, ''])
    meta = dict(process=process, errlayout=errlayout, nl=repr(nl), ncols=len(roles), nrows=nrows,
                globals=sorted(globals_), roles=[r[1] for r in roles],
                phiunit=phiunit if 'phi' in axes_pool else None)
    truth = dict(pre=list(pre), grid_text=grid_text, roles=list(roles), globals_=dict(globals_), layout=lay,
                 nrows=nrows, phiunit=phiunit if 'phi' in axes_pool else None, frame=frame, yunit=yunit)
    return text, meta, truth


def mutate(rng, text):
    """malformed stream: damage a well-formed file"""
    lines = text.splitlines()
    for _ in range(rng.randint(1, 3)):
        i = rng.randrange(len(lines))
        k = rng.random()
        if k < 0.2:
            lines[i] = lines[i].replace('=', ' ', 1)
        elif k < 0.4:
            lines[i] = lines[i] + ' abc 12x'
        elif k < 0.55:
            lines[i] = '1..2 --3 4e 5e+ .'
        elif k < 0.7:
            del lines[i]
        elif k < 0.85:
            lines[i] = lines[i].replace('column', 'colum')
        else:
            lines.insert(i, '7 8 9 text 10')
    return '\n'.join(lines)


# ---------------------------------------------------------------------------------------------
# independent reference reader of a data file (the "literal meaning" of datasets/README, data.rst)
# ---------------------------------------------------------------------------------------------

def reference_rows(text):
    """independent reference reader: a row is a line (comment removed) whose blank-separated
    fields are all legal numbers; its values are float() of the fields"""
    rows = []
    for line in text.splitlines():
        line = line.split('#')[0]
        f = line.split()
        if f and all(NUMRE.match(x) for x in f) and '=' not in line:
            rows.append([canon_float(float(x)) for x in f])
    return rows


def reference_desc(text):
    """preamble: 'key = value' lines (comment removed); a repeated key keeps its place, the last value wins"""
    d = {}
    for line in text.splitlines():
        line = line.split('#')[0]
        if '=' in line:
            p = line.split('=')
            d[p[0].strip()] = p[1].strip()
    return list(d.items())


def ascii_outside_comments(text):
    return all(ord(c) < 128 for line in text.splitlines() for c in line.split('#')[0])


def ref_number(v):
    """a number given in the preamble: int when written without '.', float otherwise; None = not a plain number"""
    if INTRE.match(v):
        return int(v)
    if NUMRE.match(v) and '.' in v:
        return float(v)
    return None


def reference_layout(desc_pairs):
    """which number of a row is what, read from the preamble keys as the README/data.rst describe them
    (xNname / xNvalue = columnK | number, y1value = columnK, y1error… = columnK, y1errornormalization = number).
    Same shape as parse_model_layout; None when the preamble is outside that documented syntax (the reader
    then says nothing)."""
    d = dict(desc_pairs)
    if 'y1name' not in d or 'y1unit' not in d or 'in1particle' not in d:
        return None
    L = dict(observable=d['y1name'], in1charge=CHARGE.get(d['in1particle']), enorm=None, axes=[])

    def colref(k):
        m = COLRE.match(d[k])
        return int(m.group(1)) - 1 if m else 'bad'
    for k, _ in desc_pairs:
        if not re.match(r'x\dname$', k):
            continue
        n = k[1]
        if 'x%sunit' % n not in d or 'x%svalue' % n not in d:
            return None
        v = d['x%svalue' % n]
        num = ref_number(v)
        if num is not None:
            L['axes'].append((d[k], 'G', num))
        elif COLRE.match(v):
            L['axes'].append((d[k], 'C', colref('x%svalue' % n)))
        else:
            return None
    if 'y1value' not in d or colref('y1value') == 'bad':
        return None
    L['ycol'] = colref('y1value')
    for f, _ in ECOLS:
        L[f] = None
    if 'y1error' in d:
        L['etotal'] = colref('y1error')         # a total error is given: nothing else is combined
    else:
        for f, k in ECOLS[1:]:
            if k in d:
                L[f] = colref(k)
        # an asymmetric error is a pair: the minus side means something only next to a plus side
        for p, m in (('estatP', 'estatM'), ('esystP', 'esystM')):
            if L[p] is None:
                L[m] = None
            elif L[m] is None:
                return None
        if 'y1errornormalization' in d:
            L['enorm'] = ref_number(d['y1errornormalization'])
            if L['enorm'] is None:
                return None
    if any(L[f] == 'bad' for f, _ in ECOLS):
        return None
    return L


def norm_lay(L):
    """layout in a form that can be compared across sources (model / reference reader / generator)"""
    return (L['observable'], L['in1charge'], L['ycol']) + tuple(L[f] for f, _ in ECOLS) + (
        None if (L['etotal'] is not None or L['enorm'] is None) else f2hex(L['enorm']),
        tuple(sorted((a, k, f2hex(canon_float(v)) if k == 'G' else v) for a, k, v in L['axes'])))


def needed_cols(L):
    return [a[2] for a in L['axes'] if a[1] == 'C'] + [L['ycol']] + [L[f] for f, _ in ECOLS if L[f] is not None]


def is_short(L, rows):
    """some referenced column lies outside some row (the loader then has nothing to read: it must reject)"""
    need = needed_cols(L)
    return any(not (-len(r) <= i < len(r)) for r in rows for i in need)


def expect_point(L, row):
    """{field: number | None} that the point made of this row carries under layout L (raw, as written)"""
    def col(i):
        return row[i] if -len(row) <= i < len(row) else None
    e = {}
    for aname, kind, v in L['axes']:
        e[aname] = v if kind == 'G' else col(v)
    e['val'] = col(L['ycol'])
    return e, col


def err_args(L, col, val):
    g_ = lambda k: (None if L[k] is None else col(L[k]))
    return [val, g_('etotal'), g_('estat'), g_('estatP'), g_('estatM'), g_('esyst'), g_('esystP'), g_('esystM'), L['enorm']]


def error_oracle(args):
    """the property in Python: a total error is taken as written; otherwise variances add: statistical,
    systematic (larger side if asymmetric), normalisation (fraction of the value).  The plus / minus totals
    take the respective side, errstat / errsyst / errnorm are the parts (code comment in update_from_grid).
    The variances are summed exactly (Fraction); only the final conversion and square root round (< 2 ulp).
    None when a written number is not finite (the oracle then says nothing)."""
    val, tot, st, sp, sm, sy, yp, ym, nm = args
    if any(x is not None and not (isinstance(x, (int, float)) and math.isfinite(x)) for x in args):
        return None
    if tot is not None:
        return dict(err=tot, errplus=tot, errminus=tot, errstat=None, errsyst=None, errnorm=None)
    z = lambda x: Fraction(0) if x is None else Fraction(x) ** 2
    vn = Fraction(0) if nm is None else (Fraction(nm) * Fraction(val)) ** 2
    try:
        rt = lambda v: math.sqrt(float(v))
        return dict(err=rt(z(st) + max(z(sp), z(sm)) + z(sy) + max(z(yp), z(ym)) + vn),
                    errplus=rt(z(st) + z(sy) + z(sp) + z(yp) + vn),
                    errminus=rt(z(st) + z(sy) + z(sm) + z(ym) + vn),
                    errstat=rt(z(st) + max(z(sp), z(sm))),
                    errsyst=rt(z(sy) + max(z(yp), z(ym)) + vn),
                    errnorm=rt(vn))
    except OverflowError:
        return None


def harmonic_flips(n):
    """cos(n phi) (n >= 0) / sin(|n| phi) (n < 0) under phi -> pi - phi: True = changes sign, None = not a harmonic
    index this check speaks about (|n| > 3 or not an integer)"""
    if n is None or isinstance(n, bool) or not isinstance(n, (int, float)) or n != int(n) or abs(n) > 3:
        return None
    n = int(n)
    return (n > 0 and n % 2 == 1) or (n < 0 and n % 2 == 0)


def conventions_expectation(raw, phiunit, frame, yunit):
    """what to_conventions must make of a raw point (documented conventions: angles in rad, BMK frame:
    phi -> pi - phi_Trento, harmonics change sign accordingly, cross sections in nb).
    raw: {field: value}; returns {field: (expected, relative tolerance, scale)}, only for what is decided"""
    e = {}
    pi = math.pi
    trento = frame == 'Trento'
    if frame not in ('Trento', 'BMK', None):
        return e
    phi = raw.get('phi')
    if phi is not None and (phiunit in DEG_UNITS or phiunit in RAD_UNITS):
        if phiunit in DEG_UNITS:
            x = float(Fraction(phi) * Fraction(pi) / 180)       # the double nearest to phi * (double pi) / 180
            tol = 1e-15
        else:
            x, tol = phi, 0.0                                   # a phi in rad is that number
        if trento:
            x, tol = pi - x, 1e-15
        e['phi'] = (x, tol, max(pi, abs(x)))
    val = raw.get('val')
    if val is not None and (yunit == PB_UNIT or yunit in NB_UNITS):
        sgn = 1
        decided = True
        if trento:
            if phi is None and raw.get('FTn') is not None:
                fl = harmonic_flips(raw['FTn'])
                decided = fl is not None
                sgn = -1 if fl else 1
            if raw.get('varphi') is not None:
                decided = False
            elif raw.get('varFTn') is not None:
                if raw['varFTn'] in (1, -1):
                    sgn = -sgn
                else:
                    decided = False
        if decided:
            if yunit == PB_UNIT:
                e['val'] = (float(Fraction(sgn * val) / 1000), 4e-16, abs(val) / 1000)
            else:
                e['val'] = (sgn * val, 0.0, abs(val))
        e['origval'] = (val, 0.0, abs(val))
        for k in ERRFIELDS:
            if raw.get(k) is not None:
                x = raw[k]
                e[k] = (float(Fraction(x) / 1000), 4e-16, abs(x) / 1000) if yunit == PB_UNIT else (x, 0.0, abs(x))
                e['orig' + k] = (x, 0.0, abs(x))
    for k in ('xB', 'Q2', 't', 'tm', 'W', 'xi', 's', 'FTn'):
        if raw.get(k) is not None:
            e[k] = (raw[k], 0.0, 1.0)
    return e


def conventions_bad(pt, exp):
    """first field of the converted point that is not what the conventions say; None if all fine"""
    for k, (x, tol, scale) in exp.items():
        got = pt.get(k)
        if isinstance(got, bool) or not isinstance(got, (int, float)):
            return k, got, x
        if tol == 0.0:
            if not same_num(got, x):
                return k, got, x
        elif not (abs(got - x) <= tol * scale):
            return k, got, x
    return None


RAW_FIELDS = ('phi', 'val', 'FTn', 'varFTn', 'varphi', 'xB', 'Q2', 't', 'tm', 'W', 'xi', 's') + ERRFIELDS


class Model:
    """the Lean model driver; when it cannot be run the check goes on with the ground truth alone"""

    def __init__(self, rep):
        self.rep, self.up = rep, True

    def run(self, lines, what):
        if not lines:
            return []
        if not self.up:
            return None
        try:
            return common.run_driver(lines)
        except (common.ModelUnavailable, common.Timeout, RuntimeError) as e:
            self.up = False
            self.rep.violation('model-unavailable',
                               'the Lean model driver (drv_C09: Model/DataFile.lean, Gen/GridPtF.lean) could not be run: %s; '
                               'the correspondence between the theorems of Props/C09.lean and the running loader is not '
                               'established in this run (the checks against the generator\'s ground truth and the '
                               'independent reference reader were still evaluated)' % (str(e)[:600],),
                               dict(correspondence='drv_C09 ' + what, detail=str(e)[:3000], exception=type(e).__name__),
                               found_input=False)
            self.rep.notes.append('model driver unavailable (%s): model comparisons skipped, ground-truth checks evaluated' % type(e).__name__)
            return None


def run(rep):
    import gepard as g
    from gepard.constants import Mp, Mp2
    rng = rep.rng
    ok, why = common.lean_side(rep, 'C09')
    quick = rep.tier == 'quick'
    files = [dict(name=n, text=t, stream='bundled', gt=None) for n, t in bundled_files()]
    rep.coverage['bundled_files'] = len(files)
    ngen = 250 if quick else 5000
    nmal = 80 if quick else 1500
    for i in range(ngen):
        text, meta, truth = gen_file(rng, rep)
        files.append(dict(name='gen%d' % i, text=text, stream='generated', gt=truth))
        rep.hist('gen.errlayout', meta['errlayout'])
        rep.hist('gen.nl', meta['nl'])
        rep.hist('gen.process', meta['process'])
        rep.hist('gen.phiunit', meta['phiunit'])
        rep.hist('gen.frame', truth['frame'])
        rep.hist('gen.yunit', truth['yunit'])
    for i in range(nmal):
        text = mutate(rng, gen_file(rng, rep)[0])
        files.append(dict(name='mal%d' % i, text=text, stream='malformed', gt=None))

    model = Model(rep)
    lines = []
    for F in files:
        lines.append('c09.parse ' + hx(F['text']))
        lines.append('c09.layout ' + hx(F['text']))
    out = model.run(lines, 'c09.parse / c09.layout of %d files' % len(files))

    registry = private_registry(g)
    deferred = []          # model lines of the point stage: (line, meta)
    nonascii = []
    npoints = ntruth = nconv = nreg = 0
    for fi, F in enumerate(files):
        name, text, stream, gt = F['name'], F['text'], F['stream'], F['gt']
        malformed = stream == 'malformed'
        vkey = stream if gt is not None or malformed else 'bundled:' + name
        rtext = text if stream != 'bundled' else None
        if out is not None:
            m_desc, m_rows = parse_model_parse(out[2 * fi])
            m_lay = parse_model_layout(out[2 * fi + 1])
        else:
            m_desc = m_rows = m_lay = None
        # ---- ground truth of the text: preamble pairs and grid ----
        t_desc = t_rows = None
        if gt is not None:
            t_desc = [tuple(p) for p in gt['pre']]
            t_rows = [[canon_float(float(t)) for t in r] for r in gt['grid_text']]
            if reference_desc(text) != t_desc or reference_rows(text) != t_rows:
                rep.violation('harness/reference-reader', 'the reference reader of the harness and the generator disagree on %s '
                              '(a fault of the harness, not of gepard)' % name, dict(file=name, text=text), found_input=False)
        elif not malformed:
            t_desc = reference_desc(text)
            if ascii_outside_comments(text):
                t_rows = reference_rows(text)
            else:
                rep.hist('bundled.non-ascii-outside-comments', name)
                # a typographic minus (U+2212 and its relatives, as pasted from a PDF) in front of a number IS a minus
                # sign to every reader of the file: the numbers written are those of the text with it spelled '-'
                norm = text
                for ch in '\u2212\u2012\u2013\u2014\ufe63\uff0d':
                    norm = norm.replace(ch, '-')
                if ascii_outside_comments(norm):
                    t_rows = reference_rows(norm)
                    rep.hist('bundled.typographic-minus-normalised', name)
                odd = sorted(set(tok for line in text.splitlines() for tok in line.split('#')[0].split() if not tok.isascii()))
                nonascii.append('%s (%s)' % (name, ', '.join(ascii(tok) for tok in odd[:6])))
        # ---- stage 1: DataSet.parse ----
        try:
            desc, data = g.DataSet.parse(None, text)
            impl = (list(desc.items()), [[canon_float(x) for x in r] for r in data])
        except Exception as e:
            impl = 'EXC:' + type(e).__name__
        rep.case(stream + '.parse', name, sample=dict(file=name, rows=len(impl[1]) if not isinstance(impl, str) else None,
                                                      keys=len(impl[0]) if not isinstance(impl, str) else None) if fi % 40 == 0 else None)
        if isinstance(impl, str):
            if not malformed or out is not None:
                rep.violation('parse/' + impl, 'parse raises %s on %s' % (impl, name),
                              dict(file=name, text=rtext, impl=impl), found_input=not malformed)
            continue
        code_desc, code_rows = impl
        if t_rows is not None and code_rows != t_rows:
            k = next((i for i, (a, b) in enumerate(zip(code_rows, t_rows)) if a != b), min(len(code_rows), len(t_rows)))
            rep.violation('parse/grid/' + vkey, 'grid of %s: gepard row %d = %s, literal numbers = %s (%d rows read, %d written)' % (
                name, k, code_rows[k] if k < len(code_rows) else None, t_rows[k] if k < len(t_rows) else None,
                len(code_rows), len(t_rows)),
                dict(file=name, text=rtext, impl=str(impl)[:2000], truth=str(t_rows)[:2000]), found_input=True)
            continue
        if t_desc is not None and code_desc != t_desc:
            dk = [p for p in t_desc if p not in code_desc][:3]
            rep.violation('parse/preamble/' + stream, 'preamble of %s: gepard has %s, the file says %s' % (
                name, [p for p in code_desc if p not in t_desc][:3] or '(other order / missing)', dk),
                dict(file=name, text=rtext, impl=str(code_desc)[:2000], truth=str(t_desc)[:2000]), found_input=True)
            continue
        if out is not None and (code_desc, code_rows) != (m_desc, m_rows):
            # the code agrees with the ground truth (or there is none: malformed / non-ASCII): the model differs
            if code_rows != m_rows:
                k = next((i for i, (a, b) in enumerate(zip(code_rows, m_rows)) if a != b), min(len(code_rows), len(m_rows)))
                what = 'grid of %s: gepard row %d = %s, model %s%s' % (
                    name, k, code_rows[k] if k < len(code_rows) else None, m_rows[k] if k < len(m_rows) else None,
                    '' if t_rows is None else ' (gepard agrees with the literal numbers)')
                key = 'parse/grid/' + vkey
            else:
                what = 'preamble of %s differs: %s vs model %s' % (name, code_desc[:3], m_desc[:3])
                key = 'parse/preamble/' + stream
            rep.violation(key, what, dict(file=name, text=rtext, impl=str(impl)[:2000], model=str((m_desc, m_rows))[:2000]),
                          found_input=False)
            continue
        # ---- stage 2: DataSet(datafile=text) raw points ----
        try:
            ds = g.DataSet(datafile=text)
            exc = None
        except Exception as e:
            ds, exc = None, type(e).__name__
        # ground-truth layout: the generator's, or the reference reader's (on the preamble just verified; for a
        # malformed file on the preamble as gepard itself parsed it: the reader then judges the column lookup only)
        if gt is not None:
            t_lay = gt['layout']
            r_lay = reference_layout(t_desc)
            if r_lay is None or norm_lay(r_lay) != norm_lay(t_lay):
                rep.violation('harness/reference-reader', 'the reference layout reader of the harness and the generator disagree on %s '
                              '(a fault of the harness, not of gepard)' % name, dict(file=name, text=text), found_input=False)
        else:
            t_lay = reference_layout(code_desc)
            if t_lay is None and not malformed:
                rep.hist('bundled.outside-reference-syntax', name)
        rows_T = code_rows           # = t_rows where there is a ground truth of the grid (verified above)
        ml = m_lay
        if not malformed and t_lay is not None:
            rep.case(stream + '.load', name)
            if exc is not None:
                if is_short(t_lay, rows_T):
                    rep.hist('layout.errors', exc + '(row-level)')
                    continue
                rep.violation('load/%s/%s' % (stream, exc),
                              'DataSet(datafile=%s): gepard raises %s on a well-formed file (%s)' % (
                                  name, exc, 'model layout ' + (ml if isinstance(ml, str) else 'ok') if out is not None else 'model not run'),
                              dict(file=name, text=rtext), found_input=True)
                continue
            if isinstance(ml, str):
                rep.violation('load/%s/accepted' % stream, 'DataSet(datafile=%s): gepard loads, model layout %s (the file is well-formed: '
                              'the model is at fault)' % (name, ml), dict(file=name, text=rtext), found_input=False)
                ml = None
        else:
            # no ground truth about acceptance (malformed file, or a preamble the reference reader does not speak about)
            if out is None:
                if exc is not None:
                    rep.hist('layout.errors', exc + '(model not run)')
                    continue
            else:
                if isinstance(ml, str) and ml.startswith('row:'):
                    # raised inside update_from_grid: only happens when the grid has rows
                    if not m_rows and exc is None and len(ds) == 0:
                        rep.hist('layout.errors', 'row-level error masked by an empty grid')
                        continue
                    ml = ml[4:]
                if isinstance(ml, str) or exc is not None:
                    if isinstance(ml, str) and exc is not None:
                        rep.hist('layout.errors', exc)
                        continue           # both reject (exception class compared loosely)
                    if exc is not None:
                        # the model's layout is fine: a referenced column outside a row shows up per row only
                        if malformed or is_short(ml, m_rows):
                            rep.hist('layout.errors', exc + '(row-level)')
                            continue
                        rep.violation('load/%s/%s' % (stream, exc), 'DataSet(datafile=%s): gepard %s, model layout ok' % (name, exc),
                                      dict(file=name, text=rtext), found_input=True)
                        continue
                    rep.violation('load/%s/accepted' % stream, 'DataSet(datafile=%s): gepard loads, model layout %s' % (name, ml),
                                  dict(file=name, text=rtext), found_input=False)
                    continue
            if t_lay is None and ml is None:
                continue
        if t_lay is not None and out is not None and ml is not None and norm_lay(ml) != norm_lay(t_lay):
            if not malformed:
                rep.violation('model/layout/' + stream, '%s: the model reads the layout %s, the %s says %s' % (
                    name, norm_lay(ml), 'generator' if gt is not None else 'reference reader', norm_lay(t_lay)),
                    dict(file=name, text=rtext), found_input=False)
                ml = None           # reported once; the points are judged by the ground truth
            else:
                t_lay = None        # the reference reader does not follow the loader on this damaged preamble: model only
        # one point per grid row
        if len(ds) != len(code_rows):
            rep.violation('load/rowcount/' + stream, '%s: %d points for %d grid rows' % (name, len(ds), len(code_rows)),
                          dict(file=name, text=rtext), found_input=True)
            continue
        # dataset-level
        d = dict(code_desc)
        want_charge = CHARGE.get(d.get('in1particle'))
        if want_charge is not None and getattr(ds, 'in1charge', None) != want_charge:
            rep.violation('load/in1charge', '%s: in1charge %r, beam %r' % (name, getattr(ds, 'in1charge', None), d.get('in1particle')),
                          dict(file=name, text=rtext), found_input=True)
        elif ml is not None and ml['in1charge'] is not None and getattr(ds, 'in1charge', None) != ml['in1charge']:
            rep.violation('load/in1charge', '%s: in1charge %r, model %r for beam %r' % (
                name, getattr(ds, 'in1charge', None), ml['in1charge'], d.get('in1particle')), dict(file=name, text=rtext), found_input=False)
        # numeric conversion of preamble keys
        for k, v in code_desc:
            a = getattr(ds, k, None)
            if NUMRE.match(v) and ('.' in v or re.match(r'[-+]?\d+$', v)):
                if isinstance(a, bool) or not isinstance(a, (int, float)) or a != float(v) or isinstance(a, float) != ('.' in v):
                    rep.violation('load/preamble-number', '%s: key %s = %r loaded as %r' % (name, k, v, a),
                                  dict(file=name, key=k, text=rtext), found_input=True)
        if d.get('process') in ('ep2epgamma', 'en2engamma') and NUMRE.match(d.get('in1energy', '')):
            E1 = float(d['in1energy'])
            s_got = getattr(ds, 's', None)
            s_line = s_want = None
            s_tol = 4e-16
            if d.get('exptype') == 'fixed target':
                s_line = 'c09.sfixed %s %s %s' % (f2hex(Mp), f2hex(Mp2), f2hex(E1))
                # exact value of 2 Mp E + Mp^2 on the doubles, rounded once; the code rounds twice (positive terms): 4e-16
                s_want = float(2 * Fraction(Mp) * Fraction(E1) + Fraction(Mp2))
            elif d.get('exptype') == 'collider' and NUMRE.match(d.get('in2energy', '')):
                E2 = float(d['in2energy'])
                s_line = 'c09.scollider %s %s %s' % (f2hex(Mp2), f2hex(E1), f2hex(E2))
                if E2 >= 2 and E1 >= 0:
                    # two-beam invariant with 50 digits; the code rounds six times, no cancellation for E2 >= 2 GeV: 8e-16
                    import decimal
                    with decimal.localcontext() as ctx:
                        ctx.prec = 50
                        D = decimal.Decimal
                        s_want = float(2 * D(E1) * (D(E2) + (D(E2) * D(E2) - D(Mp2)).sqrt()) + D(Mp2))
                    s_tol = 8e-16
            if s_line is not None:
                s_ok = None
                if s_want is not None:
                    s_ok = isinstance(s_got, (int, float)) and not isinstance(s_got, bool) and not differs(float(s_got), s_want, s_tol)
                    if not s_ok:
                        rep.violation('load/s', '%s: s=%r, beam energies give %r' % (name, s_got, s_want),
                                      dict(file=name, text=rtext), found_input=True)
                deferred.append((s_line if out is not None else None, ('s', name, s_got, s_ok, rtext)))
        # per point
        step = 1 if (not quick or stream != 'bundled' or len(ds) < 40) else max(1, len(ds) // 40)
        file_ok = True
        for ri in range(0, len(ds), step):
            pt = ds[ri]
            npoints += 1
            expT = colT = expM = colM = None
            if t_lay is not None:
                expT, colT = expect_point(t_lay, rows_T[ri])
                ntruth += 1
            if ml is not None:
                expM, colM = expect_point(ml, m_rows[ri])
            bad = None
            for field in list(expT or {}) + [f for f in (expM or {}) if f not in (expT or {})]:
                got = pt.get(field)
                if expT is not None and field in expT:
                    e = expT[field]
                    if not same_num(got, e) or (isinstance(e, int) != isinstance(got, int)):
                        bad = (field, got, e, True)
                        break
                if expM is not None and field in expM and (expT is None or field in expT):
                    if not same_num(got, expM[field]):
                        bad = (field, got, expM[field], False)
                        break
            if bad:
                file_ok = False
                rep.violation('load/point/%s/%s' % (vkey, bad[0]),
                              '%s row %d: loaded %s=%r, %s %r' % (name, ri, bad[0], bad[1],
                                                                 'file says' if bad[3] else 'model says (no independent reference for this file)' if expT is None
                                                                 else 'model says (gepard agrees with the file)', bad[2]),
                              dict(file=name, row=ri, bad=str(bad[:3]), text=rtext), found_input=bad[3])
                continue
            argsT = err_args(t_lay, colT, expT['val']) if t_lay is not None else None
            argsM = err_args(ml, colM, pt.val) if ml is not None else None
            got6 = [pt.get(k) for k in ERRFIELDS]
            line = None if (argsM is None or out is None) else 'c09.combine ' + ' '.join('N' if a is None else f2hex(a) for a in argsM)
            deferred.append((line, ('err', name, ri, got6, argsT, argsM, rtext)))
            # completed kinematics (C13's model): xi, tm, trio relation
            if 'xB' in pt and (pt.get('xi') is None or abs(pt.xi - pt.xB / (2 - pt.xB)) > 1e-15):
                rep.violation('load/xi', '%s row %d: xi=%r for xB=%r' % (name, ri, pt.get('xi'), pt.xB), dict(file=name, row=ri, text=rtext))
            if 't' in pt and pt.get('tm') != -pt.t:
                rep.violation('load/tm', '%s row %d: tm=%r for t=%r' % (name, ri, pt.get('tm'), pt.t), dict(file=name, row=ri, text=rtext))
            if all(k in pt for k in ('xB', 'W', 'Q2')) and abs(pt.xB - pt.Q2 / (pt.W ** 2 + pt.Q2 - Mp2)) > 1e-12 * max(1, abs(pt.xB)):
                rep.violation('load/trio', '%s row %d: xB, W, Q2 inconsistent' % (name, ri), dict(file=name, row=ri, text=rtext))
        if not file_ok or t_lay is None or malformed:
            continue
        # ---- stage 3 (ground truth only; the Lean model does not cover units and frames): conventions ----
        d_units = dict((d[k], d.get(k[:2] + 'unit')) for k in d if re.match(r'x\dname$', k))
        phiunit, frame, yunit = d_units.get('phi'), d.get('frame'), d.get('y1unit')
        if gt is not None:
            # generated file: to_conventions on the freshly loaded points
            for ri in range(len(ds)):
                pt = ds[ri]
                raw = dict((k, pt.get(k)) for k in RAW_FIELDS)
                exp = conventions_expectation(raw, phiunit, frame, yunit)
                nconv += 1
                rep.case('conventions', (name, ri), sample=dict(file=name, row=ri, phiunit=phiunit, frame=frame, yunit=yunit,
                                                                 phi=raw.get('phi')) if ri == 0 and phiunit in RAD_UNITS else None)
                try:
                    pt.to_conventions()
                except Exception as e:
                    rep.violation('conventions/exception/' + type(e).__name__, '%s row %d: to_conventions raises %s: %s' % (name, ri, type(e).__name__, e),
                                  dict(file=name, row=ri, text=rtext), found_input=True)
                    break
                b = conventions_bad(pt, exp)
                if b:
                    rep.violation('conventions/%s/%s' % (stream, b[0]),
                                  '%s row %d (phi unit %r, frame %r, y unit %r): after to_conventions %s=%r, the conventions give %r for the written %r' % (
                                      name, ri, phiunit, frame, yunit, b[0], b[1], b[2], raw.get(b[0][4:] if b[0].startswith('orig') else b[0])),
                                  dict(file=name, row=ri, text=rtext, raw=str(raw)), found_input=True)
                    break
        elif registry is not None:
            # bundled file: gepard.dset[id] is this file, loaded and brought to the conventions
            try:
                reg = registry.get(int(d['id'])) if INTRE.match(d.get('id', '')) else None
            except Exception:
                reg = None
            if 'id' not in d or not INTRE.match(d['id']):
                continue
            if reg is None or len(reg) != len(ds):
                rep.violation('registry/' + name, 'gepard.dset[%s] %s, the file %s has %d rows' % (
                    d['id'], 'is missing' if reg is None else 'has %d points' % len(reg), name, len(ds)), dict(file=name), found_input=True)
                continue
            for ri in range(0, len(ds), step):
                pt, rp = ds[ri], reg[ri]
                raw = dict((k, pt.get(k)) for k in RAW_FIELDS)
                exp = conventions_expectation(raw, phiunit, frame, yunit)
                nreg += 1
                rep.case('registry', (name, ri), sample=dict(file=name, id=d['id'], row=ri) if ri == 0 else None)
                b = conventions_bad(rp, exp)
                if b:
                    rep.violation('registry/%s/%s' % (name, b[0]),
                                  'gepard.dset[%s][%d] (%s; phi unit %r, frame %r, y unit %r): %s=%r, the file and the conventions give %r' % (
                                      d['id'], ri, name, phiunit, frame, yunit, b[0], b[1], b[2]), dict(file=name, row=ri, raw=str(raw)), found_input=True)
                    break
    rep.coverage['points_compared'] = npoints
    rep.coverage['points_compared_with_ground_truth'] = ntruth
    rep.coverage['points_conventions'] = nconv
    rep.coverage['points_registry'] = nreg
    # ---- point stage: combined errors and s; the model side where the driver runs, the Python oracle always ----
    mlines = [l for l, _ in deferred if l is not None]
    pout = model.run(mlines, 'c09.combine / c09.sfixed / c09.scollider of %d points' % len(mlines)) if out is not None else None
    it = iter(pout) if pout is not None else None
    for line, m in deferred:
        o = next(it) if (it is not None and line is not None) else None
        if m[0] == 's':
            _, name, s_got, s_ok, rtext = m
            rep.case('s', (name,), sample=None)
            if o is None:
                continue
            exp = hex2f(o)
            if differs(float(s_got) if isinstance(s_got, (int, float)) and not isinstance(s_got, bool) else None, exp, 4e-16):
                # s_ok False: the Python oracle has already reported it, with the file as failing input
                if s_ok is not False:
                    rep.violation('load/s', '%s: s=%r, model %r%s' % (name, s_got, exp, ' (within the accuracy of the Python oracle)' if s_ok else ''),
                                  dict(file=name, text=rtext), found_input=False)
            continue
        _, name, ri, got6, argsT, argsM, rtext = m
        expm = None if o is None else [None if x == 'N' else hex2f(x) for x in o.split()]
        rep.case('errors', (name, ri), sample=dict(file=name, row=ri, err=got6[0]) if ri == 0 and name.startswith('gen1') else None)
        judge_errors(rep, name, ri, got6, argsT, None if expm is None else (expm, argsM), rtext)
    if not ok and not rep.violations:
        rep.violation('lean', 'Lean side of C09 no longer checks: ' + why, dict(reason=why), found_input=False)
    rep.coverage['exhaustive_over_bundled_files'] = True
    rep.notes += [
        'ground truth independent of the Lean model: generated files — the generator\'s own record (literal of every cell, role of every '
        'column, global values, preamble pairs); bundled files — the reference reader of the harness (reference_desc / reference_rows / '
        'reference_layout); the generator and the reference reader are cross-checked on every generated file.  found_input=True only when '
        'the real code disagrees with that ground truth; code = ground truth ≠ model is reported as a model fault (no failing input)',
        'a loader exception on a well-formed generated file or a bundled file is a violation whatever its class; it is skipped only for '
        'malformed files or when a referenced column lies outside a row',
        'generated angle units: deg / degree / degrees / rad.  The Lean model does not model units, frames or to_conventions (the raw load '
        'does not depend on them, so rad files go through the model comparison like the others); stage 3 (to_conventions on generated '
        'points: deg→rad, rad kept as written, Trento→BMK phi → π − phi, harmonic sign, pb→nb, orig* copies, kinematics untouched) and the '
        'registry stream (gepard.dset[id] = bundled file + conventions) rest on the ground truth alone — oracle streams that support the theorems',
    ]
    if nonascii:
        rep.notes.append('bundled files with non-ASCII characters outside comments (outside the stated domain; their grid is compared with '
                         'the model only, the reference reader is not applied): ' + '; '.join(nonascii) + '.  A number written with U+2212 '
                         '(typographic minus) is read by gepard WITHOUT its sign; not reported as a violation, recorded here')
    rep.assumptions += ['float(token) is the correctly rounded value of the decimal the model returns (compared bit-for-bit)',
                        'ASCII files; line ends LF or CRLF; preamble numbers without "_" separators or inf/nan spellings',
                        'Python re semantics for the number pattern = longest match of the model automaton',
                        'tolerances: raw kinematics / value / column errors bit-for-bit; combined errors 4e-16 (model) and 1e-15 (Python '
                        'oracle with exactly summed variances: the roundings of the code are < 6 ulp, of the oracle < 2 ulp); s 4e-16 (model; Python oracle: exact for fixed target 4e-16, 50-digit for collider 8e-16); '
                        'to_conventions: rad & BMK bit-for-bit, deg→rad and π − phi 1e-15·max(π, |phi|) (two roundings), pb→nb 4e-16',
                        'harmonic sign under Trento→BMK judged for |FTn| ≤ 3 only (cos nφ odd n, sin nφ even n change sign)']
    return rep.finish(level='proof', checker_cmd='lake build Props.C09; #print axioms; gepdriver c09.* vs DataSet.parse / DataSet(datafile=…)',
                      trusted=['Lean 4.33 kernel', 'Model/DataFile.lean, Scalar/GridPt.lean.in', 'harness/props/C09.py',
                               'CPython float()/Fraction correct rounding'])


def private_registry(g):
    """gepard.dset: {id: DataSet}"""
    r = getattr(g, 'dset', None)
    return r if isinstance(r, dict) else None


def judge_errors(rep, name, ri, got6, argsT, model, rtext):
    """combined uncertainties of one point.  argsT: the written numbers per the ground truth (None: no ground truth);
    model: (values of the Lean model, its arguments) or None (not run / not yet run).
    Ground truth first: the code differs from the Python oracle on the written numbers -> violation with the file as
    failing input (err always; the other fields unless the model sides with the code).  Code = oracle ≠ model -> model fault.
    Returns False if a violation was recorded."""
    oracle = error_oracle(argsT) if argsT is not None else None
    expm, argsM = model if model is not None else (None, None)
    for i, k in enumerate(ERRFIELDS):
        a = got6[i]
        o_bad = oracle is not None and differs(a, oracle[k], ORACLE_TOL)
        m_bad = expm is not None and differs(a, expm[i], 4e-16)
        if o_bad:
            found = True if k == 'err' else not (expm is not None and not m_bad)
            rep.violation('load/errors/' + k, '%s row %d: %s=%r, the written parts combine to %r (model %s)' % (
                name, ri, k, a, oracle[k], 'not run' if expm is None else repr(expm[i])),
                dict(file=name, row=ri, args=str(argsT), text=rtext), found_input=found)
            return False
        if m_bad:
            if oracle is None:
                # no ground truth for this file: the property in Python on the model's reading of the columns
                om = error_oracle(argsM)
                want = None if om is None else om[k]
                found = k == 'err' and om is not None and differs(a, want, ORACLE_TOL)
                rep.violation('load/errors/' + k, '%s row %d: %s=%r, quadrature sum of the parts = %r (model %r)' % (
                    name, ri, k, a, want, expm[i]), dict(file=name, row=ri, args=str(argsM), text=rtext), found_input=found)
            else:
                rep.violation('load/errors/' + k, '%s row %d: %s=%r is within %g of what the written parts combine to (%r) but not within 4e-16 '
                              'of the model (%r)' % (name, ri, k, a, ORACLE_TOL, oracle[k], expm[i]),
                              dict(file=name, row=ri, args=str(argsT), text=rtext), found_input=False)
            return False
    return True


def replay(path):
    print(open(path).read()[:3000])
    return 0

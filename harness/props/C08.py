"""C08 — harmonic and integrated observables equal integrals of the differential ones.

Lean: Props/C08.lean — (1) ∫ weight_BH dφ = 2π on the regenerated model of kinematics.py; (2) the model of
`_phiharmonic` (Scalar/Harm.lean.in) with the exact integral as integrator returns the Fourier coefficients of
a trigonometric polynomial with the code's normalisation and sine sign; (3) definition-level relations for
XSintphi / XGAMMA / a rule with Σw = 2; (4) the flux identity on the regenerated model of dvcs.py / bmk.py
(exact for hotfixedBMK, BM10, BM10tw2; explicit ratios for BMK and BM10ex).

Correspondence: the model's projector, fed with the REAL Hquadrature rule (probed from gepard.quadrature as
nodes + weights) and with the real observable's values at those nodes, against `th.<obs>(pt with FTn)`;
XSintphi, XwA, XGAMMA total (5-point sum of the differential one); weight_BH, HandFlux, long2trans,
PreFacSigma, _XGAMMA_DVCS_t_Ex and the translated entries through the c06.* ops.

Oracle streams (what no theorem carries — quadrature accuracy; they support, never replace, the theorems):
  A  bundled kinematics x shipped theories (KM09a dispersive, KM15 / KM10b hybrid Mellin-Barnes), |n| <= 3:
     harmonic vs accurate Fourier integral, threshold 1 % of scale.  A miss is keyed by accuracy_key: when the
     code's value EQUALS the documented 10-point rule applied to the observable (1e-9 of scale) the key is
     'quadrature-accuracy/bundled/<obs>/n<k>' - the same registered known finding as in B (the finding records
     up to 1.1 % at |n| = 3 on a few bundled points), so on bundled kinematics the 1 % threshold separates
     "known rule inaccuracy" from everything else but does not fail the run by itself; a value that is NOT the
     10-point rule of the observable and misses by more than 1 % is a violation 'fourier/<obs>/n<k>';
  B  random physical kinematics x constant CFFs, all observables, |n| <= 3, threshold 1 % of scale:
     misses are reported under 'quadrature-accuracy/<obs>/n<k>' (the registered known finding on the current
     tree) when the value is the 10-point rule of the observable, under 'fourier/...' when it is not;
     gross errors / normalisation-or-sign patterns under 'quadrature-gross/...';
  A, B  "the same observable as a function of phi" is evaluated through TWO independent paths of the real code:
     vars={'phi': ...} on the point without phi (the path _phiharmonic itself uses) and FRESH points that carry
     phi themselves, evaluated without vars (XS then works on pt.copy()): vectorised on the reference grid for
     every case, point by point at the 10 Gauss-Legendre nodes for a fixed share.  Where the two paths differ the
     harmonic is compared with the Fourier coefficient of the explicit-phi scan ('harmonic-vs-explicit-phi/...').
     A fixed share of the transverse-target configurations (every 4th configuration of a stream) gives the
     target angle as an explicit `varphi` (0, pi/2, pi and random angles in [0, 2pi)) instead of varFTn = +-1;
  ∫ weight_BH dφ = 2π; XGAMMA total vs adaptive quad over -t in [0, tmmax] (1 %); flux identity on the real code.
"""
import math

import bmkcommon as B
import common
from common import f2hex, hex2f

TOL_MODEL = 1e-12       # model vs code, relative to the sum of |terms| of the quadrature sum
ACC = 0.01              # the property's "per-cent-of-scale"
GROSS = 0.40            # stream B, -t/Q2 < 0.1 (largest error measured there on the pinned tree: 17 % in 117 000 harmonics, see GROSS_HI): anything above is reported under a separate key
OBS_U = ['XUU', 'XLU', 'XUUw', 'XLUw', 'XCUU', 'XCLU', 'AC', 'ALU', 'ALUI', 'ALUDVCS']
OBS_L = ['TSA', 'BTSA']
OBS_T = ['TSA', 'BTSA', 'AUTI', 'AUTDVCS', 'ALTI', 'ALTBHDVCS']
OBS_TX = ['XUU', 'XLU', 'XUUw']     # cross sections on a transversely polarised target (they depend on the target angle too)
XSLIKE = {'XUU', 'XLU', 'XUUw', 'XLUw', 'XCUU', 'XCLU'}
GROSS_HI = 1.0          # stream B, -t/Q2 >= 0.1.  Measured on the pinned tree (every value being the 10-point rule of the observable): offline, 4000 configurations
#                         of rand_config, 178 353 harmonics: max err/scale 0.171 / 0.258 / 0.271 / 0.278 / 0.267 in the -t/Q2 bins [0.1, 0.15) / [0.15, 0.2) /
#                         [0.2, 0.3) / [0.3, 0.5) / [0.5, 1], 99.9 % quantile <= 0.23 (61 285 cases; below 0.1: max 0.169 in 117 068 cases); 1600 transverse-target
#                         configurations with an explicit varphi, OBS_T + OBS_TX, 99 561 harmonics: max 0.165 below -t/Q2 = 0.1, 0.238 above; thorough tier, seed 0
#                         (77 252 harmonics): max 0.336 (BM10ex ALU FTn=-3 at -t/Q2 = 0.77); the recorded finding says "up to 29 % of scale".  The tail grows slowly
#                         with the sample and no a-priori bound below O(1) exists (one Gauss-Legendre node sitting on a narrow peak contributes up to
#                         max(w_i) = 0.30 of scale, two peaks twice that; in general |rule - coefficient| <= (2 + 4/pi) scale), so the cap is empirical: 3 x the
#                         largest error seen.  It is only about degradation of the rule on a more peaked observable - a wrong projection is already caught by
#                         accuracy_key ('fourier/...') and by the pattern detectors at any -t/Q2
NT = 512
PATHS_AGREE = 1e-9      # vars= path vs explicit-phi points, of scale: same formulas on the same numbers (measured difference on the pinned tree: 0 in 11 462 cases)
VARPHI_EVERY = 4        # every 4th configuration of a stream is a transverse target with an explicit varphi


# ------------------------------------------------------------------------------------------
# helpers
# ------------------------------------------------------------------------------------------

def probe_rule(fn, a, b):
    """abscissas y_i and effective weights W_i of a linear rule fn(func, a, b) = sum_i W_i func(y_i)"""
    import numpy as np
    rec = []
    fn(lambda y: (rec.append(np.array(y, dtype=float)), np.zeros(len(y)))[1], a, b)
    y = rec[0]
    n = len(y)
    W = [float(fn(lambda yy, i=i: np.eye(n)[i], a, b)) for i in range(n)]
    return [float(v) for v in y], W


def rule_tokens(y, W, a, b):
    """the rule as (root, weight) pairs on [-1,1] — what the model's affine map expects"""
    toks = []
    for yi, Wi in zip(y, W):
        toks += [f2hex(2 * (yi - a) / (b - a) - 1), f2hex(2 * Wi / (b - a))]
    return '%d %s' % (len(y), ' '.join(toks))


def exc_name(e):
    return type(e).__name__


def xwa_scale(W, wv):
    """error scale of b1/b0: (sum |terms| of b1)/|b0| + |b1/b0| (sum |terms| of b0)/|b0|, bounded above"""
    S = sum(abs(w * v) for w, v in zip(W, wv)) / math.pi
    b0 = max(abs(sum(w * v for w, v in zip(W, wv))) / (2 * math.pi), 1e-300)
    return S / b0 * (1 + S / (2 * b0))


def obs_at(th, obs, base, phis, vector=False):
    """the real observable at the given azimuths (scalar evaluations unless `vector`)"""
    import numpy as np
    f = getattr(th, obs)
    if vector:
        return [float(v) for v in np.asarray(f(base, vars={'phi': np.array(phis)}), dtype=float) * np.ones(len(phis))]
    return [float(f(base, vars={'phi': float(p)})) for p in phis]


def fourier_ref(vals, n):
    """periodic trapezoid on the uniform grid (spectrally accurate for a smooth periodic integrand)"""
    import numpy as np
    N = len(vals)
    grid = np.arange(N) * 2 * math.pi / N
    if n > 0:
        return float(2 * np.mean(vals * np.cos(n * grid)))
    if n < 0:
        return float(2 * np.mean(vals * np.sin(-n * grid)))
    return float(np.mean(vals))


def fourier_quad(f, n):
    """adaptive Fourier integral with the code's normalisation"""
    from scipy.integrate import quad
    import warnings
    with warnings.catch_warnings():
        warnings.simplefilter('ignore')
        if n > 0:
            return quad(lambda p: f(p) * math.cos(n * p), 0, 2 * math.pi, limit=400, epsabs=0, epsrel=1e-9)[0] / math.pi
        if n < 0:
            return quad(lambda p: f(p) * math.sin(-n * p), 0, 2 * math.pi, limit=400, epsabs=0, epsrel=1e-9)[0] / math.pi
        return quad(f, 0, 2 * math.pi, limit=400, epsabs=0, epsrel=1e-9)[0] / (2 * math.pi)


def own_rule(th, obs, base, n):
    """what the documented projection gives: the 10-point Gauss-Legendre rule on [0, 2pi] (quadrature.Hquadrature =
    quadSciPy10transposed) applied to the observable as a function of phi, evaluated here point by point with scipy's
    nodes: res = (b-a)/2 * sum(w f(y) trig(n y)) / pi, halved for n = 0"""
    import numpy as np
    from scipy.special import p_roots
    r, w = p_roots(10)
    y = math.pi * (r + 1)
    f = np.array([float(getattr(th, obs)(base, vars={'phi': float(yy)})) for yy in y])
    if n > 0:
        return float(np.sum(w * f * np.cos(n * y)))
    if n < 0:
        return float(np.sum(w * f * np.sin(-n * y)))
    return float(np.sum(w * f) / 2)


def accuracy_key(th, obs, base, n, code, scale, where):
    """key of a harmonic that misses the Fourier coefficient by more than 1 % of scale: if the code's value IS the
    documented 10-point rule applied to the observable, the miss is the accuracy of that rule (the recorded finding,
    prefix quadrature-accuracy/); if not, the projection itself is wrong (a different violation)"""
    try:
        own = own_rule(th, obs, base, n)
    except Exception:
        own = None
    if own is not None and abs(code - own) <= 1e-9 * max(scale, abs(own)):
        return 'quadrature-accuracy/%s/%s/n%d' % (where, obs, n), own
    return 'fourier/%s/n%d' % (obs, n), own


def reference(th, obs, base, n_list, rep=None):
    """(scale, {n: reference}, values) from a 512-point uniform grid, convergence-checked against its 256-point
    sub-grid; refined once to 4096 points; None when there is no converged reference (case skipped)"""
    import numpy as np
    for N in (NT, 8 * NT):
        grid = np.arange(N) * 2 * math.pi / N
        vals = np.asarray(getattr(th, obs)(base, vars={'phi': grid}), dtype=float) * np.ones(N)
        if not np.all(np.isfinite(vals)):
            return None
        scale = float(np.max(np.abs(vals)))
        out = {n: fourier_ref(vals, n) for n in n_list}
        if all(abs(out[n] - fourier_ref(vals[::2], n)) <= 1e-5 * max(scale, 1e-300) for n in n_list):
            return scale, out, vals
        if rep is not None:
            rep.hist('oracle.reference', 'refined-to-%d' % (8 * N) if N == NT else 'unconverged-skipped')
    return None


def inplace_scan(th, obs, kw, N):
    """values of the observable at N uniform azimuths from one working point: phi set in place, prepare() called before and after some of the moves"""
    import numpy as np
    import gepard as g
    w = g.DataPoint(**dict(kw, phi=0.0))
    out = []
    for k in range(N):
        if k % 2 == 0:
            w.prepare()                      # prepared at the PREVIOUS azimuth (e.g. for g.weight_BH), then moved
        w.phi = k * 2 * math.pi / N
        out.append(float(getattr(th, obs)(w)))
        if k % 3 == 0:
            w.prepare()
    return np.array(out)


def varphi_plan(rng, i):
    """target angle of configuration i of a stream: None (varFTn = +-1 as in the data files, or no transverse target) or
    an explicit varphi.  Deterministic share: every VARPHI_EVERY-th configuration; the k-th of them takes 0, random, pi,
    random, pi/2, random, ... (random in [0, 2 pi)), so every run has angles far from pi/2 and the special ones"""
    if i % VARPHI_EVERY != VARPHI_EVERY - 1:
        return None
    k = i // VARPHI_EVERY
    return [0.0, math.pi, math.pi / 2][(k // 2) % 3] if k % 2 == 0 else rng.uniform(0, 2 * math.pi)


def rand_config(rng, fset=None, varphi=None):
    """constant-CFF theory + physical kinematics without phi + target configuration; with `varphi` the target is
    transversely polarised and its angle is given explicitly as varphi (no varFTn)"""
    fs = fset or rng.choice(B.FORMULA_SETS)
    m = B.random_m(rng, with_eff=rng.random() < 0.5)
    th = B.theory(fs, m)
    kw = B.random_kinematics(rng)
    kw = {k: (float(v) if isinstance(v, float) else v) for k, v in kw.items()}    # numpy scalars -> float (replays)
    kw['in1polarization'] = rng.choice([-1, 1])
    del kw['phi']
    tgt = rng.choice(['U', 'L', 'T'] if fs in B.LP_SETS else ['U', 'T'])
    if varphi is not None:
        tgt = 'T'
    if tgt != 'U':
        kw['in2polarizationvector'] = tgt
        kw['in2polarization'] = rng.choice([-1, 1])
    if tgt == 'T':
        if varphi is not None:
            kw['varphi'] = float(varphi)
        else:
            kw['varFTn'] = rng.choice([-1, 1])
    return fs, m, th, kw, tgt


def gl10():
    """nodes on [0, 2 pi] and weights of the documented 10-point Gauss-Legendre rule, from scipy (not from the package)"""
    from scipy.special import p_roots
    r, w = p_roots(10)
    return math.pi * (r + 1), w


def rule10(f, y, w, n):
    """the documented projection applied to node values f: (b-a)/2 sum(w f trig(n y)) / pi, halved for n = 0"""
    import numpy as np
    if n > 0:
        return float(np.sum(w * f * np.cos(n * y)))
    if n < 0:
        return float(np.sum(w * f * np.sin(-n * y)))
    return float(np.sum(w * f) / 2)


def explicit_scan(th, obs, mk, phis, vector):
    """the observable at explicit azimuths WITHOUT vars=: points that carry phi themselves (mk(phi) builds a fresh one), so
    that XS works on pt.copy() and never goes through DataPoint(kindict=vars) + _fill_kinematics(kin, old=pt)"""
    import numpy as np
    f = getattr(th, obs)
    if vector:
        return np.asarray(f(mk(np.array(phis, dtype=float))), dtype=float) * np.ones(len(phis))
    return np.array([float(f(mk(float(p)))) for p in phis])


def explicit_paths(rep, th, obs, base, mk, vals, scale, n_list, nodes, where):
    """'the same observable as a function of phi' through the independent path: explicit-phi points against the vars= values
    `vals` (uniform grid of len(vals) azimuths).  Vectorised on that grid always; with `nodes` also point by point at the 10
    Gauss-Legendre nodes.  Returns None when the paths agree (PATHS_AGREE of scale), else a dict with the Fourier
    coefficients / scale / 10-point rule of the explicit-phi observable and one azimuth where the paths differ."""
    import numpy as np
    N = len(vals)
    grid = np.arange(N) * 2 * math.pi / N
    rep.case('oracle.explicit-phi', (where, obs, 'grid'))
    ve = explicit_scan(th, obs, mk, grid, True)
    # asymmetries are ratios of cross sections of natural size 1: an absolute 1e-13 keeps rounding of a nearly cancelling ratio
    # (array vs scalar trigonometric functions may differ in the last bit) out of the comparison; irrelevant at 1 % of any scale >= 1e-11
    tol = PATHS_AGREE * scale + (0.0 if obs in XSLIKE else 1e-13)
    out = None
    md = float(np.max(np.abs(ve - vals))) / scale if np.all(np.isfinite(ve - vals)) else float('inf')
    rep.coverage['explicit_phi_max_path_difference_over_scale'] = max(rep.coverage.get('explicit_phi_max_path_difference_over_scale', 0.0), md)
    if not np.all(np.abs(ve - vals) <= tol):           # also catches NaN
        k = int(np.nanargmax(np.abs(ve - vals))) if np.any(np.isfinite(ve - vals)) else 0
        out = dict(how='array of azimuths in one point', phi=float(grid[k]), explicit=float(ve[k]), vars=float(vals[k]), grid=ve)
    if nodes or out is not None:
        y, w = gl10()
        rep.case('oracle.explicit-phi', (where, obs, 'nodes'))
        se = explicit_scan(th, obs, mk, y, False)
        sv = np.asarray(getattr(th, obs)(base, vars={'phi': y}), dtype=float) * np.ones(len(y))
        md = float(np.max(np.abs(se - sv))) / scale if np.all(np.isfinite(se - sv)) else float('inf')
        rep.coverage['explicit_phi_max_path_difference_over_scale'] = max(rep.coverage.get('explicit_phi_max_path_difference_over_scale', 0.0), md)
        if out is None and not np.all(np.abs(se - sv) <= tol):
            # only the point-by-point path differs: its own scan is the reference (one fresh point per azimuth)
            k = int(np.nanargmax(np.abs(se - sv))) if np.any(np.isfinite(se - sv)) else 0
            out = dict(how='one fresh point per azimuth', phi=float(y[k]), explicit=float(se[k]), vars=float(sv[k]),
                       grid=explicit_scan(th, obs, mk, np.arange(256) * 2 * math.pi / 256, False))
        if out is not None:
            out['rule'] = {n: rule10(se, y, w, n) for n in n_list}
    if out is None:
        rep.hist('oracle.explicit-phi', 'paths-agree')
        return None
    rep.hist('oracle.explicit-phi', 'paths-differ')
    ge = out['grid']
    if not np.all(np.isfinite(ge)):
        out['refs'] = None
        return out
    out['scale'] = float(np.max(np.abs(ge)))
    out['refs'] = {n: fourier_ref(ge, n) for n in n_list}
    if not all(abs(out['refs'][n] - fourier_ref(ge[::2], n)) <= 1e-5 * max(out['scale'], 1e-300) for n in n_list):
        rep.hist('oracle.explicit-phi', 'explicit-scan-unconverged')
        out['refs'] = None
    return out


def explicit_report(rep, xp, label, obs, harmonics, replay):
    """the paths differ: every harmonic (n -> code value) against the Fourier coefficient of the explicit-phi scan, 1 % of
    scale; the worst miss is reported.  A miss whose value IS the documented 10-point rule applied to the explicit-phi
    observable is the recorded rule inaccuracy; no miss at all: the difference of the two paths is reported without a
    failing input (the property could not be shown violated)."""
    diff = 'at phi=%r a point carrying phi gives %r (%s) but vars={phi} on the point without phi gives %r' % (
        xp['phi'], xp['explicit'], xp['how'], xp['vars'])
    if xp['refs'] is None:
        rep.violation('explicit-phi/values/' + obs, '%s: %s has no converged explicit-phi scan; %s' % (label, obs, diff), replay, found_input=False)
        return
    bad = []
    for n, code in harmonics.items():
        err = abs(code - xp['refs'][n]) / max(xp['scale'], 1e-300)
        if not err <= ACC:
            bad.append((err if err == err else float('inf'), n, code))
    if not bad:
        rep.violation('explicit-phi/values/' + obs, '%s: %s; no harmonic of %s is off by 1 %% of scale from the Fourier coefficient of the '
                      'explicit-phi scan' % (label, diff, obs), replay, found_input=False)
        return
    is_rule = lambda n, code: abs(code - xp['rule'][n]) <= 1e-9 * max(xp['scale'], abs(xp['rule'][n]))
    wrong = [b for b in bad if not is_rule(b[1], b[2])]
    if not wrong:
        err, n, code = max(bad)
        rep.violation('quadrature-accuracy/explicit/%s/n%d' % (obs, n), '%s: %s harmonic FTn=%d = %r is the 10-point rule of the explicit-phi '
                      'observable, whose Fourier coefficient is %r (scale %r)' % (label, obs, n, code, xp['refs'][n], xp['scale']), replay)
        return
    err, n, code = max(wrong)
    own = xp['rule'][n]
    rep.violation('harmonic-vs-explicit-phi/%s/n%d' % (obs, n),
                  '%s: %s harmonic FTn=%d = %r, but the Fourier coefficient of the same observable of the same point evaluated at explicit phi '
                  '(fresh points carrying phi, no vars=) is %r and the 10-point rule on those values gives %r (scale max|obs| = %r): %.3g of scale '
                  '> 1 %%; %s' % (label, obs, n, code, xp['refs'][n], own, xp['scale'], err, diff),
                  dict(replay, observable=obs, FTn=n, code=code, explicit_phi_fourier=xp['refs'][n], explicit_phi_ten_point_rule=own,
                       scale=xp['scale'], phi=xp['phi'], value_explicit_phi=xp['explicit'], value_vars=xp['vars']))


def lacks_lp(th):
    """the theory's formula set has no longitudinally-polarised-target formulas: it does not descend from BM10ex, the class
    that defines TBH2LP / TDVCS2LP / TINTLP (BMK and hotfixedBMK only carry placeholders that raise ValueError)"""
    import gepard as g
    return not isinstance(th, g.BM10ex)


def bundled_points():
    import gepard.fits as F
    seen, out = set(), []
    for nm in ['ACpts', 'ALLpts', 'ALUIpts', 'AULpts', 'AUTIpts', 'CLAS08pts', 'C_AULpts', 'H_AULpts', 'pts_AFKM12',
               'pts_KM09a', 'pts_KM09b', 'pts_KM10', 'pts_KM10b', 'pts_KM15']:
        for p in getattr(F, nm, []):
            if 'FTn' not in p or 'phi' in p:
                continue
            k = (p.observable, p.FTn, p.xB, p.Q2, p.t, getattr(p, 'in1energy', None))
            if k not in seen:
                seen.add(k)
                out.append((nm, p))
    return out


def pt_summary(p):
    return {k: (float(getattr(p, k)) if isinstance(getattr(p, k), (int, float)) else str(getattr(p, k)))
            for k in ('xB', 'Q2', 't', 'in1energy', 'in2energy', 'exptype', 'in1charge', 'in1polarization', 'in2polarization',
                      'in2polarizationvector', 'varFTn', 'observable', 'FTn', 'W', 'tmmax') if hasattr(p, k)}


# ------------------------------------------------------------------------------------------
# correspondence: model (Lean, Float) vs real code
# ------------------------------------------------------------------------------------------

class Corr:
    def __init__(self, rep):
        self.rep = rep
        self.lines, self.meta = [], []
        self.broken = []
        self.worst = 0.0

    def add(self, line, kind, key, code, scale, info):
        self.lines.append(line)
        self.meta.append((kind, key, code, scale, info))

    def run(self):
        if not self.lines:
            return
        try:
            out = common.run_driver(self.lines)
        except common.ModelUnavailable as ex:        # the regenerated model does not build: reported by run(), not a crash
            self.broken.append(('model-unavailable', 'all', None, str(ex)[:300], {}))
            return
        for line, (kind, key, code, scale, info), o in zip(self.lines, self.meta, out):
            self.rep.case(kind, key, sample=dict(kind=kind, key=str(key), code=code, model=o[:40]) if len(
                [s for s in self.rep.coverage['samples'] if isinstance(s, dict) and s.get('stream') == kind]) < 2 else None)
            if isinstance(code, str):
                if o != code:
                    self.broken.append((kind, key, code, o, info))
                continue
            if isinstance(code, list):
                if o == 'bad-op':
                    self.broken.append((kind, key, code, o, info))
                    continue
                mv = [hex2f(x) for x in o.split()]
                if len(mv) != len(code) or any(abs(a - b) > 1e-14 * max(abs(a), abs(b), 1.0) for a, b in zip(code, mv)):
                    self.broken.append((kind, key, code, mv, info))
                continue
            tok = o.split()
            if tok and tok[0] == 'ok':
                tok = tok[1:]
            if len(tok) != 1 or len(tok[0]) != 16:
                self.broken.append((kind, key, code, o, info))
                continue
            mvl = hex2f(tok[0])
            if code != code and mvl != mvl:
                continue
            err = abs(code - mvl) / max(scale, abs(code), 1e-300)
            self.worst = max(self.worst, err if err == err else float('inf'))
            if not err <= TOL_MODEL:
                self.broken.append((kind, key, code, mvl, info))


def harm_lines(C, rule, th, obs, base_kw, n_list, tag, info, vector=False, mkpt=None):
    """one model line per harmonic order: the model's projector on the real node values vs the real harmonic"""
    import gepard as g
    y, W, rtok = rule
    mk = mkpt or (lambda extra: g.DataPoint(**dict(base_kw, **extra)))
    try:
        vals = obs_at(th, obs, mk({}), y, vector=vector)
    except Exception as e:
        vals = None
        verr = exc_name(e)
    for n in n_list:
        try:
            code = float(getattr(th, obs)(mk({'FTn': n})))
        except Exception as e:
            code = exc_name(e)
        if vals is None:
            # the real observable raises already at a single azimuth (e.g. LP with BMK): both must raise alike
            C.rep.case('harm-raises', (tag, obs, n))
            if code != verr:
                C.broken.append(('harm', (tag, obs, n), code, verr, info))
            continue
        trig = [math.sin(-n * p) if n < 0 else math.cos(n * p) if n > 0 else 0.5 for p in y]
        scale = sum(abs(w * v * t) for w, v, t in zip(W, vals, trig)) / math.pi
        C.add('c08.harm ftn %s %s %s' % (f2hex(n), rtok, ' '.join(map(f2hex, vals))), 'harm', (tag, obs, n), code, scale,
              dict(info, observable=obs, FTn=n))
        C.rep.hist('harm.observable', obs)
        C.rep.hist('harm.FTn', n)


def corr_harmonics(rep, rng, C, rule, quick):
    import gepard as g
    import gepard.fits as F
    # (a) constant CFFs, all formula sets, random kinematics, every observable of the target configuration
    ncfg = 20 if quick else 300
    for i in range(ncfg):
        fs, m, th, kw, tgt = rand_config(rng, fset=B.FORMULA_SETS[i % 5] if i < 5 else None, varphi=varphi_plan(rng, i))
        obs_list = {'U': OBS_U, 'L': OBS_L, 'T': OBS_T + [OBS_TX[i % len(OBS_TX)]]}[tgt]
        for obs in obs_list:
            n_list = list(range(-3, 4))
            harm_lines(C, rule, th, obs, kw, n_list, ('const', fs, tgt, i), dict(set=fs, target=tgt, kinematics=kw, model=m))
        rep.hist('harm.config', '%s/%s%s' % (fs, tgt, '/varphi' if 'varphi' in kw else ''))
    # unusual orders: non-integer, beyond 3, NaN -> ValueError; neither phi nor FTn -> ValueError; phi wins over FTn
    fs, m, th, kw, tgt = rand_config(rng, fset='BM10')
    kw = {k: v for k, v in kw.items() if not k.startswith('in2pol') and k != 'varFTn'}
    harm_lines(C, rule, th, 'XUU', kw, [0.5, -2.5, 4, -7], ('odd', fs), dict(set=fs, kinematics=kw, model=m))
    y, W, rtok = rule
    vals = obs_at(th, 'ALU', g.DataPoint(**kw), y)
    for obs in ('ALU', 'XUU'):
        try:
            code = float(getattr(th, obs)(g.DataPoint(**dict(kw, FTn=float('nan')))))
        except Exception as e:
            code = exc_name(e)
        C.add('c08.harm ftn %s %s %s' % (f2hex(float('nan')), rtok, ' '.join(map(f2hex, vals))), 'harm-error', (obs, 'nan'), code, 1.0, dict(kinematics=kw))
        try:
            code = float(getattr(th, obs)(g.DataPoint(**kw)))
        except Exception as e:
            code = exc_name(e)
        C.add('c08.harm none N %s %s' % (rtok, ' '.join(map(f2hex, vals))), 'harm-error', (obs, 'neither'), code, 1.0, dict(kinematics=kw))
        phi = rng.uniform(0, 2 * math.pi)
        d = float(getattr(th, obs)(g.DataPoint(**kw), vars={'phi': phi}))
        code = float(getattr(th, obs)(g.DataPoint(**dict(kw, phi=phi, FTn=1))))
        C.add('c08.harm phi %s %s %s %s' % (f2hex(phi), rtok, ' '.join(map(f2hex, vals)), f2hex(d)), 'harm-phi', (obs, 'phi+FTn'), code, abs(d), dict(kinematics=kw))
    # (b) shipped theories on bundled points: dispersive (KM09a) and hybrid Mellin-Barnes (KM15 / KM10b)
    pts = bundled_points()
    rep.coverage['bundled_harmonic_points'] = len(pts)
    for thn, npts, vector in (('th_KM09a', 30 if quick else len(pts), False),
                              (rng.choice(['th_KM15', 'th_KM10b']), 4 if quick else 40, quick)):
        th = getattr(F, thn)
        for nm, p in rng.sample(pts, min(npts, len(pts))):
            def mk(extra, p=p):
                q = p.copy()
                del q.FTn
                for k, v in extra.items():
                    setattr(q, k, v)
                return q
            n_list = sorted({int(p.FTn)} | set(rng.sample(range(-3, 4), 2 if quick else 6)))
            harm_lines(C, rule, th, p.observable, None, n_list, (thn, nm, p.observable, p.xB, p.Q2, p.t),
                       dict(theory=thn, point=pt_summary(p)), vector=vector, mkpt=mk)
            rep.hist('harm.config', thn)


def corr_integrated(rep, rng, C, rule, trule, quick):
    """XSintphi, XwA, XGAMMA"""
    import gepard as g
    import gepard.fits as F
    y, W, rtok = rule
    for i in range(8 if quick else 200):
        fs, m, th, kw, tgt = rand_config(rng)
        kw = {k: v for k, v in kw.items() if not k.startswith('in2pol') and k != 'varFTn'}
        info = dict(set=fs, kinematics=kw, model=m)
        base = g.DataPoint(**kw)
        vals = obs_at(th, 'XUU', base, y)
        code = float(th.XSintphi(g.DataPoint(**dict(kw, FTn=rng.choice([-1, 0, 2])) if i % 2 else kw)))
        C.add('c08.xsintphi N %s %s' % (rtok, ' '.join(map(f2hex, vals))), 'xsintphi', (fs, i), code,
              sum(abs(w * v) for w, v in zip(W, vals)), info)
        if i % 4 == 0:   # a point that carries phi: 2 pi XUU(phi)
            phi = rng.uniform(0, 2 * math.pi)
            d = float(th.XUU(base, vars={'phi': phi}))
            code = float(th.XSintphi(g.DataPoint(**dict(kw, phi=phi))))
            C.add('c08.xsintphi %s %s %s %s' % (f2hex(phi), rtok, ' '.join(map(f2hex, vals)), f2hex(d)), 'xsintphi', (fs, i, 'phi'), code, abs(2 * math.pi * d), info)
        wv = [float(th.XUU(base, vars={'phi': p}, weighted=True)) for p in y]
        code = float(th.XwA(g.DataPoint(**kw)))
        C.add('c08.xwa %s %s' % (rtok, ' '.join(map(f2hex, wv))), 'xwa', (fs, i), code, xwa_scale(W, wv), info)
    # XwA on bundled points with a shipped theory
    xw = [q for nm in ('pts_KM15', 'pts_KM10b', 'pts_KM10', 'pts_AFKM12') for q in getattr(F, nm, []) if q.observable == 'XwA']
    for p in xw[:2 if quick else 8]:
        th = F.th_KM09a
        wv = [float(th.XUU(p, vars={'phi': ph}, weighted=True)) for ph in y]
        code = float(th.XwA(p))
        C.add('c08.xwa %s %s' % (rtok, ' '.join(map(f2hex, wv))), 'xwa', ('KM09a', p.xB, p.t), code, xwa_scale(W, wv), dict(point=pt_summary(p)))
    # XGAMMA: total = t-quadrature of the differential one over [-tmmax, 0]
    import numpy as np
    tq = __import__('gepard.quadrature', fromlist=['tquadrature']).tquadrature
    cases = []
    for i in range(6 if quick else 100):
        fs = rng.choice(B.FORMULA_SETS)
        m = B.random_m(rng, with_eff=False)
        kin = dict(Q2=rng.uniform(1, 50), process='gammastarp2gammap')
        if rng.random() < 0.5:
            kin['W'] = rng.uniform(30, 140)
        else:
            kin['xB'] = 10 ** rng.uniform(-4, -1)
        if rng.random() < 0.6:
            kin['tmmax'] = rng.uniform(0.2, 1.5)
        cases.append(('const/' + fs, B.theory(fs, m), kin, dict(set=fs, model=m)))
    tot = [p for p in list(F.pts_KM10b) + list(F.pts_KM15) if p.observable == 'XGAMMA' and 't' not in p]
    for p in rng.sample(tot, 4 if quick else len(tot)):
        kin = dict(W=float(p.W), Q2=float(p.Q2), process='gammastarp2gammap')
        if 'tmmax' in p:
            kin['tmmax'] = float(p.tmmax)
        cases.append(('KM09a', F.th_KM09a, kin, {}))
    for thn in (['th_KM15'] if quick else ['th_KM15', 'th_KM10b']):
        p = rng.choice(tot)
        cases.append((thn, getattr(F, thn), dict(W=float(p.W), Q2=float(p.Q2), process='gammastarp2gammap'), {}))
    try:
        class TDVMP(g.PWNormGPD, g.MellinBarnesTFF, g.DVMP):
            pass
        cases.append(('DVMP', TDVMP(), dict(W=75., Q2=rng.uniform(3, 20), process='gammastarp2rho0p'), {}))
    except Exception as e:     # no DVMP class in this tree: nothing to compare
        rep.notes.append('DVMP theory could not be built (%r): XGAMMA(rho0) not compared' % (e,))
    for tag, th, kin, info in cases:
        tm = kin.get('tmmax', 1.)
        ty, tW = probe_rule(tq, -tm, 0)
        ttok = rule_tokens(ty, tW, -tm, 0)
        kk = {k: v for k, v in kin.items() if k != 'tmmax'}
        try:
            dv = [float(th.XGAMMA(g.DataPoint(**dict(kk, t=t)))) for t in ty]
            code = float(th.XGAMMA(g.DataPoint(**kin)))
        except Exception as e:
            C.broken.append(('xgamma', tag, exc_name(e), 'exception in the real code', dict(info, kinematics=kin)))
            continue
        C.add('c08.xgamma N %s %s %s' % (f2hex(kin['tmmax']) if 'tmmax' in kin else 'N', ttok, ' '.join(map(f2hex, dv))), 'xgamma',
              (tag, kin.get('W'), kin.get('xB'), kin['Q2'], tm), code, sum(abs(w * v) for w, v in zip(tW, dv)), dict(info, kinematics=kin))
        # differential branch: a point with t returns the differential value itself
        t0 = -rng.uniform(0.05, 0.9)
        d = float(th.XGAMMA(g.DataPoint(**dict(kk, t=t0))))
        C.add('c08.xgamma %s N %s %s %s' % (f2hex(t0), ttok, ' '.join(map(f2hex, dv)), f2hex(d)), 'xgamma', (tag, 't', t0), d, abs(d), dict(info, kinematics=kin))
        rep.hist('xgamma.theory', tag.split('/')[0])
    # the rule itself: abscissas as the model maps them
    zeros = lambda k: ' '.join([f2hex(0.)] * k)
    C.add('c08.nodes %s %s %s %s' % (f2hex(0.), f2hex(2 * math.pi), rtok, zeros(len(y))), 'nodes', 'H', list(y), 1.0, {})
    ty, tW = probe_rule(tq, -1., 0.)
    C.add('c08.nodes %s %s %s %s' % (f2hex(-1.), f2hex(0.), rule_tokens(ty, tW, -1., 0.), zeros(len(ty))), 'nodes', 't', list(ty), 1.0, {})


def corr_kin(rep, rng, C, quick):
    """weight_BH, HandFlux, long2trans, PreFacSigma, _XGAMMA_DVCS_t_Ex: generated model vs code"""
    from gepard import kinematics as K
    for i in range(25 if quick else 600):
        fs = rng.choice(B.FORMULA_SETS)
        m = B.random_m(rng)
        th = B.theory(fs, m)
        kw = B.random_kinematics(rng)
        pt, kin = B.prepared(kw)
        tok = B.tokens(kin, m)
        info = dict(set=fs, kinematics=kw, model=m)
        for fn in ('weight_BH', 'HandFlux', 'long2trans', 'anintP1P2', 'P1P2'):
            v = float(getattr(K, fn)(kin))
            C.add('c06.kin %s %s' % (fn, tok), 'kin', (fn, i), v, abs(v), info)
        for e in ('PreFacSigma', '_XGAMMA_DVCS_t_Ex'):
            v = float(getattr(th, e)(kin))
            C.add('c06.eval %s %s %s' % (fs, e, tok), 'kin', (e, i), v, abs(v), info)


# ------------------------------------------------------------------------------------------
# oracle streams: the property on the real code
# ------------------------------------------------------------------------------------------

def oracle_weight(rep, rng, n):
    """∫ weight_BH dphi = 2 pi"""
    from scipy.integrate import quad
    from gepard import kinematics as K
    worst = 0.0
    for i in range(n):
        kw = B.random_kinematics(rng)

        def w(phi, kw=kw):
            _, kin = B.prepared(dict(kw, phi=phi))
            return float(K.weight_BH(kin))
        val = quad(w, 0, 2 * math.pi, limit=400, epsabs=0, epsrel=1e-11)[0]
        err = abs(val / (2 * math.pi) - 1)
        worst = max(worst, err)
        rep.case('oracle-weight', (i, kw['xB'], kw['Q2']), sample=dict(kinematics={k: kw[k] for k in ('xB', 'Q2', 't')}, integral=val) if i < 2 else None)
        if err > 1e-8:
            rep.violation('weight/not-2pi', 'integral of weight_BH over phi = %r, not 2 pi = %r (xB=%.5g Q2=%.5g t=%.5g)' % (
                val, 2 * math.pi, kw['xB'], kw['Q2'], kw['t']), dict(kinematics=kw, integral=val))
    rep.coverage['oracle_weight_max_rel_dev'] = worst


def oracle_A(rep, rng, quick, intensive=False):
    """bundled kinematics x shipped theories, |n| <= 3, 1 % of scale"""
    import gepard.fits as F
    pts = bundled_points()
    worst = (0.0, None)
    plan = [('th_KM09a', (150 if quick else len(pts)) * (2 if intensive else 1), list(range(-3, 4))),
            ('th_KM15', 4 if quick else 60, None), ('th_KM10b', 3 if quick else 60, None)]
    nq = na = 0
    for thn, npts, n_all in plan:
        th = getattr(F, thn)
        for nm, p in rng.sample(pts, min(npts, len(pts))):
            q = p.copy()
            del q.FTn
            n_list = n_all or sorted({int(p.FTn)} | set(rng.sample(range(-3, 4), 2)))
            try:
                r = reference(th, p.observable, q, n_list, rep)
            except Exception as e:
                # the ONE expected case: a longitudinally polarised target with a theory whose formula set is the (hotfixed) BMK one,
                # which has no longitudinal-target formulas (bmk.BMK.TBH2LP / TDVCS2LP / TINTLP raise ValueError 'Longitudinal target
                # not implemented for BMK model! Use BM10.'; BM10ex and its descendants define them): the observable is not defined there
                if isinstance(e, ValueError) and getattr(p, 'in2polarizationvector', None) == 'L' and lacks_lp(th):
                    rep.hist('oracleA.skipped', '%s/%s/%s' % (thn, p.observable, exc_name(e)))
                    continue
                rep.hist('oracleA.exception', '%s/%s/%s' % (thn, p.observable, exc_name(e)))
                rep.violation('oracleA/exception/' + exc_name(e), '%s.%s at explicit azimuths (vars={phi: grid}) raised %r on the bundled point %s' % (
                    thn, p.observable, e, pt_summary(p)), dict(theory=thn, observable=p.observable, point=pt_summary(p), exception=repr(e)))
                continue
            if r is None:
                continue
            scale, refs, vals = r
            if scale < 1e-12:
                continue

            def mk(phi, p=p):
                e = p.copy()
                del e.FTn
                e.phi = phi
                return e
            try:
                xp = explicit_paths(rep, th, p.observable, q, mk, vals, scale, n_list, nodes=(thn == 'th_KM09a' and na % 3 == 0),
                                    where=(thn, p.xB, p.Q2, p.t))
            except Exception as e:
                rep.violation('oracleA/exception/' + exc_name(e), '%s.%s on a copy of the bundled point carrying phi raised %r; point %s' % (
                    thn, p.observable, e, pt_summary(p)), dict(theory=thn, observable=p.observable, point=pt_summary(p), exception=repr(e)))
                xp = None
            na += 1
            if xp is not None:
                harm = {}
                for n in n_list:
                    pn = p.copy()
                    pn.FTn = n
                    harm[n] = float(getattr(th, p.observable)(pn))
                explicit_report(rep, xp, '%s, bundled point %s' % (thn, pt_summary(p)), p.observable, harm, dict(theory=thn, point=pt_summary(p)))
            for n in n_list:
                pn = p.copy()
                pn.FTn = n
                code = float(getattr(th, p.observable)(pn))
                err = abs(code - refs[n]) / scale
                rep.case('oracle-A', (thn, p.observable, n, p.xB, p.Q2, p.t),
                         sample=dict(theory=thn, point=pt_summary(p), FTn=n, code=code, reference=refs[n], scale=scale) if worst[1] is None else None)
                rep.hist('oracleA.observable', p.observable)
                if err > worst[0]:
                    worst = (err, dict(theory=thn, observable=p.observable, FTn=n, point=pt_summary(p), code=code, reference=refs[n], scale=scale))
                if err > ACC:
                    key, own = accuracy_key(th, p.observable, q, n, code, scale, 'bundled')
                    rep.violation(key,
                                  '%s: %s harmonic FTn=%d = %r but the Fourier integral of the same observable is %r (scale max|obs| = %r): '
                                  '%.2g of scale > 1 %%; the 10-point rule applied to the observable gives %r; point %s' % (
                                      thn, p.observable, n, code, refs[n], scale, err, own, pt_summary(p)),
                                  dict(theory=thn, observable=p.observable, FTn=n, point=pt_summary(p), code=code, reference=refs[n], scale=scale,
                                       ten_point_rule=own))
            # cross-check of the reference itself with scipy's adaptive quad (a few per run)
            if thn == 'th_KM09a' and nq < (3 if quick else 25):
                nq += 1
                n = n_list[nq % len(n_list)]
                rq = fourier_quad(lambda ph: float(getattr(th, p.observable)(q, vars={'phi': ph})), n)
                rep.case('oracle-reference-crosscheck', (p.observable, n, p.xB, p.t))
                if abs(rq - refs[n]) > 1e-6 * scale:
                    rep.violation('reference/disagree', 'periodic-trapezoid and scipy-quad references disagree: %r vs %r (scale %r)' % (refs[n], rq, scale),
                                  dict(point=pt_summary(p), FTn=n), found_input=False)
    rep.coverage['oracleA_worst'] = dict(error_over_scale=worst[0], margin_to_1pct=(ACC / worst[0] if worst[0] else float('inf')), case=worst[1])


def oracle_B(rep, rng, ncfg, fset=None):
    """random physical kinematics x constant CFFs: all observables, |n| <= 3"""
    import gepard as g
    stats = []
    unphys = 0
    for i in range(ncfg):
        fs, m, th, kw, tgt = rand_config(rng, fset=fset, varphi=varphi_plan(rng, i))
        base = g.DataPoint(**kw)
        obs_list = {'U': OBS_U, 'L': OBS_L, 'T': OBS_T}[tgt]
        if tgt == 'T':      # cross sections on the transverse target: all three with an explicit varphi, one otherwise
            obs_list = obs_list + (OBS_TX if 'varphi' in kw else [OBS_TX[i % len(OBS_TX)]])
        rep.hist('oracleB.target', tgt + ('/varphi' if 'varphi' in kw else '/varFTn' if tgt == 'T' else ''))
        if 'varphi' in kw:
            rep.hist('oracleB.varphi', 'special %.4f' % kw['varphi'] if kw['varphi'] in (0.0, math.pi / 2, math.pi) else
                     'random, |varphi - pi/2| > 0.3' if abs(kw['varphi'] - math.pi / 2) > 0.3 else 'random, within 0.3 of pi/2')
        for obs in obs_list:
            try:
                r = reference(th, obs, base, list(range(-3, 4)), rep)
            except Exception as e:
                rep.violation('oracleB/exception/' + exc_name(e), '%s.%s raised %r' % (fs, obs, e), dict(set=fs, kinematics=kw, model=m))
                continue
            if r is None:
                continue
            scale, refs, vals = r
            if scale < 1e-12:
                continue       # identically vanishing observable (e.g. ALUDVCS for the BMK set): nothing to project
            if obs not in XSLIKE and scale > 1.0:
                unphys += 1    # |asymmetry| > 1: a cross section of this random CFF set is negative somewhere
                continue
            if rng.random() < 0.25:
                # "the same observable as a function of phi" as a user scans it: ONE working point, moved in phi in
                # place and prepared at every step (as g.weight_BH needs), evaluated without vars=
                import numpy as np
                rep.case('oracle-B.inplace-scan', (fs, tgt, obs, i))
                try:
                    step = 8
                    sv = inplace_scan(th, obs, kw, NT // step)
                    if not np.allclose(sv, vals[:NT:step] if len(vals) == NT else vals[::8 * step], rtol=1e-9, atol=1e-12 * scale):
                        full = inplace_scan(th, obs, kw, NT)
                        k = int(np.argmax(np.abs(sv - (vals[:NT:step] if len(vals) == NT else vals[::8 * step]))))
                        for n in range(-3, 4):
                            code = float(getattr(th, obs)(g.DataPoint(**dict(kw, FTn=n))))
                            four = fourier_ref(full, n)
                            if abs(code - four) > ACC * scale:
                                rep.violation('inplace-scan/%s/n%d' % (obs, n), '%s, target %s: %s harmonic FTn=%d = %r but the Fourier coefficient of the '
                                              'observable scanned on one prepared point (phi set in place, prepare() called between the moves) is %r; at phi=%r '
                                              'that point gives %r, a fresh point %r' % (fs, tgt + (' varphi=%r' % kw['varphi'] if 'varphi' in kw else ''), obs, n, code, four, k * 2 * math.pi * step / NT, float(sv[k]),
                                                                                       float(vals[k * step] if len(vals) == NT else vals[k * 8 * step])),
                                              dict(obs=obs, n=n, set=fs, target=tgt, kinematics=kw, model=m, code=code, scan_fourier=four))
                                break
                        else:
                            rep.violation('inplace-scan/values/' + obs, '%s.%s evaluated on a prepared point moved in phi in place differs from the fresh-point '
                                          'value (%r vs %r) though no harmonic is off by 1%%' % (fs, obs, float(sv[k]), float(vals[k * step])),
                                          dict(obs=obs, set=fs, target=tgt, kinematics=kw, model=m), found_input=False)
                except Exception as e:
                    rep.violation('oracleB/exception/' + exc_name(e), '%s.%s on a prepared, moved point raised %r' % (fs, obs, e),
                                  dict(set=fs, kinematics=kw, model=m))
            # "the same observable as a function of phi" through the independent path: fresh points that carry phi, no vars=
            # (every case on the reference grid; point by point at the 10 nodes for explicit-varphi configurations and every 3rd other)
            try:
                xp = explicit_paths(rep, th, obs, base, lambda phi: g.DataPoint(**dict(kw, phi=phi)), vals, scale, list(range(-3, 4)),
                                    nodes=('varphi' in kw or i % 3 == 0), where=(fs, tgt, i))
            except Exception as e:
                rep.violation('oracleB/exception/' + exc_name(e), '%s.%s on a point carrying phi raised %r' % (fs, obs, e),
                              dict(set=fs, observable=obs, kinematics=kw, model=m))
                xp = None
            harm = {}
            for n in range(-3, 4):
                code = float(getattr(th, obs)(g.DataPoint(**dict(kw, FTn=n))))
                harm[n] = code
                err = abs(code - refs[n]) / scale
                rep.case('oracle-B', (fs, tgt, obs, n, i))
                stats.append(dict(err=err, obs=obs, n=n, code=code, ref=refs[n], scale=scale, set=fs, target=tgt, kinematics=kw, model=m,
                                  tQ=-kw['t'] / kw['Q2'], _th=th, _base=base))
            if xp is not None:
                explicit_report(rep, xp, '%s, target %s%s' % (fs, tgt, ' varphi=%r' % kw['varphi'] if 'varphi' in kw else ''), obs, harm,
                                dict(set=fs, target=tgt, kinematics=kw, model=m))
    # report
    by_n = {}
    for s in stats:
        d = by_n.setdefault(abs(s['n']), [0, 0, 0.0])
        d[0] += 1
        d[1] += s['err'] > ACC
        d[2] = max(d[2], s['err'])
    worst = max(stats, key=lambda s: s['err']) if stats else None
    rep.coverage['oracleB'] = dict(
        cases=len(stats), skipped_asymmetry_above_1=unphys,
        per_abs_n={str(k): dict(cases=v[0], above_1pct=v[1], fraction=round(v[1] / v[0], 4), max_err_over_scale=v[2]) for k, v in sorted(by_n.items())},
        worst=None if worst is None else {k: worst[k] for k in ('err', 'obs', 'n', 'code', 'ref', 'scale', 'set', 'target', 'kinematics')})
    reported = False
    for s in sorted(stats, key=lambda s: -s['err']):
        if s['err'] <= ACC:
            break
        rp = {k: s[k] for k in ('obs', 'n', 'code', 'ref', 'scale', 'set', 'target', 'kinematics', 'model')}
        # is the value the documented 10-point rule applied to the observable?  Only then is the miss the recorded finding
        key_, own_ = accuracy_key(s['_th'], s['obs'], s['_base'], s['n'], s['code'], s['scale'], 'random')
        if not key_.startswith('quadrature-accuracy/'):
            rep.violation(key_, '%s, target %s: %s harmonic FTn=%d = %r is neither the Fourier coefficient %r nor the 10-point rule applied to '
                          'the observable (%r); scale %r' % (s['set'], s['target'], s['obs'], s['n'], s['code'], s['ref'], own_, s['scale']),
                          dict(rp, ten_point_rule=own_))
            continue
        what = '%s, target %s: %s harmonic FTn=%d = %r but the Fourier integral of the same observable is %r (scale max|obs| = %r): %.3g of scale; ' \
               'xB=%.5g Q2=%.5g t=%.5g %s E=%.5g' % (s['set'], s['target'], s['obs'], s['n'], s['code'], s['ref'], s['scale'], s['err'],
                                                      s['kinematics']['xB'], s['kinematics']['Q2'], s['kinematics']['t'],
                                                      s['kinematics']['exptype'], s['kinematics']['in1energy'])
        if s['err'] > GROSS and s['tQ'] < 0.1:
            rep.violation('quadrature-gross/%s/n%d' % (s['obs'], s['n']), what + ' (above %.0f %% at -t/Q2 < 0.1)' % (100 * GROSS), rp)
        elif s['err'] > GROSS_HI and s['tQ'] >= 0.1:
            rep.violation('quadrature-gross/%s/n%d' % (s['obs'], s['n']), what + ' (above %.0f %% at -t/Q2 >= 0.1)' % (100 * GROSS_HI), rp)
        if not reported:     # the worst case only; the per-|n| failure fractions are in coverage.oracleB
            reported = True
            nbad = sum(1 for x in stats if x['err'] > ACC)
            rep.violation('quadrature-accuracy/%s/n%d' % (s['obs'], s['n']), what + ' > 1 %% (worst of %d such cases out of %d)' % (nbad, len(stats)), rp)
    # normalisation / sign patterns: code/reference close to 2, 1/2 or -1 in most cases with a sizeable coefficient
    for cls, sel in (('n>0', lambda n: n > 0), ('n<0', lambda n: n < 0), ('n=0', lambda n: n == 0)):
        el = [s for s in stats if sel(s['n']) and abs(s['ref']) > 0.1 * s['scale']]
        for target, nm in ((2.0, 'twice'), (0.5, 'half'), (-1.0, 'minus')):
            hits = [s for s in el if abs(s['code'] / s['ref'] / target - 1) < 0.02]
            if len(el) >= 5 and len(hits) >= 0.6 * len(el):
                s = hits[0]
                rep.violation('quadrature-gross/pattern/%s/%s' % (cls, nm),
                              'harmonics with %s are %s the Fourier coefficient in %d of %d cases with a sizeable coefficient, e.g. %s %s FTn=%d: %r vs %r '
                              '(xB=%.5g Q2=%.5g t=%.5g)' % (cls, {'twice': 'twice', 'half': 'half', 'minus': 'minus'}[nm], len(hits), len(el), s['set'], s['obs'],
                                                           s['n'], s['code'], s['ref'], s['kinematics']['xB'], s['kinematics']['Q2'], s['kinematics']['t']),
                              {k: s[k] for k in ('obs', 'n', 'code', 'ref', 'scale', 'set', 'target', 'kinematics', 'model')})
        rep.coverage.setdefault('oracleB_pattern_eligible', {})[cls] = len(el)


def oracle_xgamma(rep, rng, quick):
    """t-integrated XGAMMA vs adaptive quad of the differential one over -t in [0, tmmax], 1 %"""
    import gepard as g
    import gepard.fits as F
    from scipy.integrate import quad
    tot = [p for p in list(F.pts_KM10b) + list(F.pts_KM15) if p.observable == 'XGAMMA' and 't' not in p]
    plan = [('th_KM09a', F.th_KM09a, 'gammastarp2gammap')] * (5 if quick else 40) + [('th_KM15', F.th_KM15, 'gammastarp2gammap')] * (1 if quick else 8)
    if not quick:
        plan += [('th_KM10b', F.th_KM10b, 'gammastarp2gammap')] * 8
    try:
        class TDVMP(g.PWNormGPD, g.MellinBarnesTFF, g.DVMP):
            pass
        plan += [('DVMP', TDVMP(), 'gammastarp2rho0p')] * (1 if quick else 6)
    except Exception:
        pass
    worst = (0.0, None)
    for thn, th, proc in plan:
        p = rng.choice(tot)
        kin = dict(W=float(p.W), Q2=float(p.Q2), process=proc)
        if rng.random() < 0.4:
            kin['tmmax'] = rng.uniform(0.3, 1.2)
        tm = kin.get('tmmax', 1.)
        kk = {k: v for k, v in kin.items() if k != 'tmmax'}
        code = float(th.XGAMMA(g.DataPoint(**kin)))
        ref = quad(lambda tmv: float(th.XGAMMA(g.DataPoint(**dict(kk, t=-tmv)))), 0, tm, epsabs=0, epsrel=1e-6, limit=100)[0]
        err = abs(code - ref) / abs(ref)
        rep.case('oracle-xgamma', (thn, kin['W'], kin['Q2'], tm), sample=dict(theory=thn, kinematics=kin, code=code, reference=ref) if worst[1] is None else None)
        if err > worst[0]:
            worst = (err, dict(theory=thn, kinematics=kin, code=code, reference=ref))
        if err > ACC:
            rep.violation('xgamma-total/%s' % thn, '%s: XGAMMA without t = %r but the adaptive integral of XGAMMA(t) over -t in [0, %g] is %r (%.2g relative > 1 %%) at W=%g Q2=%g' % (
                thn, code, tm, ref, err, kin['W'], kin['Q2']), dict(theory=thn, kinematics=kin, code=code, reference=ref))
    rep.coverage['oracle_xgamma_worst'] = dict(rel_error=worst[0], margin_to_1pct=(ACC / worst[0] if worst[0] else float('inf')), case=worst[1])


def sigma_rho(m, kin, rH, rE):
    from gepard.constants import Mp2
    xB, Q2, t = kin.xB, kin.Q2, kin.t
    eps2 = 4 * xB ** 2 * Mp2 / Q2
    H2 = m['ReH'] ** 2 + m['ImH'] ** 2
    E2 = m['ReE'] ** 2 + m['ImE'] ** 2
    EH = 2 * m['ReE'] * m['ReH'] + 2 * m['ImE'] * m['ImH']
    return 65.14079453579676 * (xB ** 2 / Q2 ** 2 / (1 - xB) / (2 - xB) ** 2 / math.sqrt(1 + eps2) * (
        4 * (1 - xB) * H2 * rH - xB ** 2 * (E2 + EH) * rE - (2 - xB) ** 2 * t / 4 / Mp2 * E2))


def oracle_flux(rep, rng, n):
    """flux identity on the real code: XSintphi(pure DVCS, axial CFFs = 0) = HandFlux x XGAMMA(t)"""
    import gepard as g
    from gepard import kinematics as K
    from gepard.constants import GeV2nb, alpha
    lit = 65.14079453579676
    dev = abs(math.pi * alpha ** 2 * GeV2nb / lit - 1)
    rep.coverage['literal_vs_pi_alpha2_GeV2nb_rel'] = dev
    if dev > 1e-14:
        rep.violation('flux/literal', 'the literal 65.14079453579676 of _XGAMMA_DVCS_t_Ex differs from pi alpha^2 GeV2nb = %r by %.3g relative' % (
            math.pi * alpha ** 2 * GeV2nb, dev), dict(alpha=alpha, GeV2nb=GeV2nb))
    worst = {}
    for i in range(n):
        fs = B.FORMULA_SETS[i % 5]
        m = B.random_m(rng, with_eff=False)
        for k in ('ReHt', 'ImHt', 'ReEt', 'ImEt'):
            m[k] = 0.0
        if i % 3 == 2:
            m['ReE'] = m['ImE'] = 0.0
        kw = B.random_kinematics(rng)
        kw['in1polarization'] = rng.choice([-1, 0, 1])
        kwn = {k: v for k, v in kw.items() if k != 'phi'}
        pt, kin = B.prepared(kw)
        th0 = B.theory(fs, dict(m, F1=0.0, F2=0.0))       # pure DVCS: no BH, no interference
        th = B.theory(fs, m)
        lhs_int = float(th0.XSintphi(g.DataPoint(**kwn)))
        lhs_term = 2 * math.pi * float(th.PreFacSigma(kin)) * float(th.TDVCS2unp(kin))
        sig = float(th.XGAMMA(g.DataPoint(xB=kw['xB'], Q2=kw['Q2'], t=kw['t'], process='gammastarp2gammap')))
        flux = float(K.HandFlux(kin))
        y, e2, tau, xB = kin.y, kin.eps2, kin.t / kin.Q2, kin.xB
        if fs == 'BMK':
            want = flux * sig * (1 + e2) * (2 - 2 * y + y * y) / (2 - 2 * y + y * y + e2 * y * y / 2)
            form = 'HandFlux*XGAMMA*(1+eps2)(2-2y+y^2)/(2-2y+y^2+eps2 y^2/2)'
        elif fs == 'BM10ex':
            rH = (1 + tau * xB) * (2 - xB) ** 2 / (2 - xB + tau * xB) ** 2
            rE = (1 + tau) ** 2 * (2 - xB) ** 2 / (2 - xB + tau * xB) ** 2
            want = flux * sigma_rho(m, kin, rH, rE)
            form = 'HandFlux*sigma_rho(rhoH, rhoE)'
            if m['ReE'] == 0.0 and m['ImE'] == 0.0 and abs(flux * sig * rH - want) > 1e-10 * abs(want):
                # E = 0: sigma_rho must be rhoH x the code's own photoproduction formula
                rep.violation('flux/BM10ex/E0', 'BM10ex, E = 0: HandFlux*XGAMMA*rhoH = %r but HandFlux*sigma_rho = %r (XGAMMA(t) of the code is not the '
                              'formula of _XGAMMA_DVCS_t_Ex with the literal 65.14079453579676)' % (flux * sig * rH, want), dict(set=fs, kinematics=kw, model=m))
        else:
            want = flux * sig
            form = 'HandFlux*XGAMMA'
        for nm, lhs in (('XSintphi', lhs_int), ('2pi*PreFacSigma*TDVCS2unp', lhs_term)):
            err = abs(lhs - want) / abs(want) if want == want and want != 0 else float('inf')
            worst[fs] = max(worst.get(fs, 0.0), err)
            rep.case('oracle-flux', (fs, nm, i), sample=dict(set=fs, lhs=nm, value=lhs, expected=want, form=form) if i < 2 else None)
            if not err <= 1e-10:
                rep.violation('flux/%s' % fs, '%s: %s = %r but %s = %r (relative %.3g) at xB=%.5g Q2=%.5g t=%.5g y=%.5g, axial CFFs zero' % (
                    fs, nm, lhs, form, want, err, kin.xB, kin.Q2, kin.t, kin.y), dict(set=fs, kinematics=kw, model=m, lhs=lhs, expected=want))
    rep.coverage['oracle_flux_max_rel_dev'] = worst


# ------------------------------------------------------------------------------------------

def provider_xgamma(rep, rng, n):
    """XGAMMA(t) (the gamma* p -> gamma p cross section that enters the flux identity) can depend on the CFF model only through the
    values ReH(pt) … ImEt(pt) it reports: for a theory whose CFFs come from a real model block (hybrid free / fixed pole, the
    hybrid base block, dispersive, Mellin-Barnes) it must equal XGAMMA(t) of the constant-CFF theory fed with exactly those values.
    (Seeded change C08-10: the hybrid test of _XGAMMA_DVCS_t_Ex looked at the direct bases only, so the shipped hybrid models
    fell through to the sea-only `cff()` array.)"""
    import gepard as g
    import gepard.fits  # noqa: F401
    providers = [('hybrid-free-pole/KM15', (g.eff.KellyEFF, g.gpd.PWNormGPD, g.cff.HybridFreePoleCFF), dict(g.fits.par_KM15)),
                 ('hybrid-fixed-pole/KM15', (g.eff.KellyEFF, g.gpd.PWNormGPD, g.cff.HybridFixedPoleCFF), dict(g.fits.par_KM15)),
                 ('hybrid-base/KM10', (g.eff.DipoleEFF, g.gpd.PWNormGPD, g.cff.HybridCFF), dict(g.fits.par_KM10)),
                 ('hybrid-free-pole/KM10b', (g.eff.KellyEFF, g.gpd.PWNormGPD, g.cff.HybridFreePoleCFF), dict(g.fits.par_KM10b)),
                 ('dispersive/KM09a', (g.eff.DipoleEFF, g.cff.DispersionFixedPoleCFF), dict(g.fits.par_KM09a)),
                 ('mellin-barnes/AFKM12', (g.eff.KellyEFF, g.gpd.PWNormGPD, g.cff.MellinBarnesCFF), dict(g.fits.par_AFKM12))]
    names = ['ReH', 'ImH', 'ReE', 'ImE', 'ReHt', 'ImHt', 'ReEt', 'ImEt']
    worst = 0.0
    for i in range(n):
        label, bases, par = providers[i % len(providers)]
        fs = B.FORMULA_SETS[(i // len(providers)) % 5]
        xB = 10 ** rng.uniform(-3.3, -0.35)
        Q2 = 10 ** rng.uniform(0.3, 1.8)
        t = -rng.uniform(0.02, 0.8)
        kw = dict(xB=xB, Q2=Q2, t=t, process='gammastarp2gammap')
        info = dict(provider=label, set=fs, kinematics=kw, parameters=par)
        try:
            th = type('PX_' + fs, bases + (getattr(g, fs),), {})()
            th.parameters.update(par)
            code = float(th.XGAMMA(g.DataPoint(**kw)))
            pt = g.DataPoint(**kw)
            m = {nm: float(getattr(th, nm)(pt)) for nm in names}
            m['F1'] = m['F2'] = 0.0              # the photoproduction cross section has no Bethe-Heitler part
            want = float(B.theory(fs, m).XGAMMA(g.DataPoint(**kw)))
        except Exception as e:
            if not B.in_real_code(e):
                raise
            rep.violation('provider-xgamma/exception/' + exc_name(e), 'XGAMMA(t) of %s with %s raised %r' % (fs, label, e), info)
            continue
        rep.case('provider-xgamma', (label, fs, i), sample=dict(info, reported=m, code=code, expected=want) if i < 2 else None)
        rep.hist('provider-xgamma.model', label)
        d = abs(code - want) / max(abs(want), 1e-300)
        worst = max(worst, d)
        if d > 1e-9:
            rep.violation('provider-xgamma/' + label.split('/')[0],
                          'XGAMMA(t) of %s with the CFFs of the model block %s is %r, but the same theory fed with the values that model '
                          'reports (%s) gives %r (relative difference %.3g) at xB=%.5g Q2=%.5g t=%.5g: the photoproduction cross section does '
                          'not see the CFF values the model reports' % (fs, label, code, {k: round(v, 6) for k, v in m.items()}, want, d, xB, Q2, t),
                          dict(info, reported=m, code=code, expected=want))
    rep.coverage['provider_xgamma_worst_relative_difference'] = worst


def sequence_stream(rep, rng, quick):
    """integrated observables set and remove a temporary harmonic index / momentum transfer on the caller's point:
    a harmonic observable evaluated on the SAME point afterwards must still be the Fourier coefficient it was before
    (bundled points carrying FTn = 0 are the delicate ones)"""
    import gepard as g
    from gepard import fits
    cand = [(k, j, p) for k in sorted(g.dset) for j, p in enumerate(g.dset[k])
            if p.get('process') in ('ep2epgamma', 'en2engamma') and 'FTn' in p and 'phi' not in p and 't' in p]
    zero = [c for c in cand if c[2]['FTn'] == 0]
    pool = rng.sample(zero, min(len(zero), 5 if quick else 40)) + rng.sample(cand, min(len(cand), 3 if quick else 40))
    th = fits.th_KM15
    for ip, (dk, dj, p) in enumerate(pool):
        q = p.copy()                       # work on a copy: the bundled point itself stays as loaded
        ref_pt = p.copy()
        try:
            before = float(th.XUU(ref_pt))
        except Exception as e:
            before = 'EXC:' + type(e).__name__
        steps = []
        try:
            th.XSintphi(q)
            steps.append('XSintphi')
            if rng.random() < 0.5:
                th.XSintphi(q)
                steps.append('XSintphi')
            after = float(th.XUU(q))
        except Exception as e:
            after = 'EXC:' + type(e).__name__
        # key: dataset id + index of the point in its dataset (deterministic; the same point drawn twice counts once)
        rep.case('sequence', (dk, dj, p.get('FTn'), tuple(steps)), sample=dict(dataset=p.get('id'), index=dj, FTn=p.get('FTn'), steps=steps) if ip == 0 else None)
        if after != before:
            rep.violation('sequence/XSintphi-then-XUU/FTn=%s' % p.get('FTn'),
                          'XUU of a point of dataset %s with FTn=%r is %r, but after %s on the same point it is %r'
                          % (p.get('id'), p.get('FTn'), before, '+'.join(steps) or 'XSintphi', after),
                          dict(dataset=p.get('id'), index_in_dataset=dj, FTn=p.get('FTn'), before=before, after=after))


def run(rep):
    import warnings
    warnings.simplefilter('ignore')
    rng = rep.rng
    ok, why = common.lean_side(rep, 'C08')
    quick = rep.tier == 'quick'
    import gepard.quadrature as Qd
    y, W = probe_rule(Qd.Hquadrature, 0, 2 * math.pi)
    rule = (y, W, rule_tokens(y, W, 0, 2 * math.pi))
    ty, tW = probe_rule(Qd.tquadrature, -1., 0.)
    rep.coverage['Hquadrature'] = dict(points=len(y), sum_weights_over_2pi=sum(W) / (2 * math.pi), routine=getattr(Qd.Hquadrature, '__name__', '?'))
    rep.coverage['tquadrature'] = dict(points=len(ty), sum_weights=sum(tW), routine=getattr(Qd.tquadrature, '__name__', '?'))

    broken = B.entry_correspondence(rep, rng, 6 if quick else 300)
    C = Corr(rep)
    corr_harmonics(rep, rng, C, rule, quick)
    corr_integrated(rep, rng, C, rule, (ty, tW), quick)
    corr_kin(rep, rng, C, quick)
    C.run()
    rep.coverage['max_model_vs_code_err_over_scale'] = C.worst
    disagree = bool(broken or C.broken or not ok)

    # oracle streams: routinely, and enlarged as the failing-input search when something broke
    oracle_weight(rep, rng, 12 if quick else 300)
    oracle_A(rep, rng, quick, intensive=disagree)
    oracle_B(rep, rng, (80 if quick else 1500) * (2 if disagree else 1))
    oracle_xgamma(rep, rng, quick)
    oracle_flux(rep, rng, 25 if quick else 1000)
    provider_xgamma(rep, rng, 30 if quick else 600)
    sequence_stream(rep, rng, quick)

    for kind, key, code, model, info in C.broken[:5]:
        if not rep.violations:
            rep.violation('model/%s/%s' % (kind, '/'.join(str(k) for k in (key if isinstance(key, tuple) else (key,))[:3])),
                          'model of %s and code disagree at %s: code %r model %r' % (kind, key, code, model), dict(info, key=str(key)), found_input=False)
    for kind, fset, e, v, o, kw, m in broken[:5]:
        if not rep.violations:
            rep.violation('model/%s/%s/%s' % (kind, fset, e), 'translated model and code disagree on %s.%s: code %r model %r' % (fset, e, v, o),
                          dict(set=fset, entry=e, kinematics=kw, model=m), found_input=False)
    if not ok and not rep.violations:
        rep.violation('lean', 'Lean side of C08 no longer checks: ' + why, dict(reason=why), found_input=False)
    rep.notes += [
        'oracle stream A: bundled kinematics x shipped theories, harmonic vs Fourier integral (512-point periodic trapezoid, '
        'convergence-checked, cross-checked with scipy.integrate.quad), threshold 1 % of max_phi |observable|.  A miss above 1 % whose value '
        'equals the documented 10-point rule applied to the observable (1e-9 of scale) is keyed "quadrature-accuracy/bundled/..." and is matched by '
        'the same registered known finding as stream B (it records 1.1 % at |n| = 3 on a few bundled points): on bundled kinematics the 1 % '
        'threshold therefore fails the run only when the value is NOT the 10-point rule of the observable ("fourier/..."); the largest error '
        'seen is in coverage.oracleA_worst',
        'oracle stream B: random physical kinematics x constant CFFs, same threshold; failures are the registered known finding '
        '"quadrature-accuracy/" (10-point Gauss-Legendre on [0,2pi] is too coarse for the peaked BH propagators); gross errors (> 40 % at '
        '-t/Q2 < 0.1, > 100 % above: largest measured on the pinned tree 17 % resp. 34 % in 350 000 harmonics) and normalisation/sign patterns are reported under "quadrature-gross/"; measured fractions in coverage.oracleB',
        'streams A and B evaluate "the same observable as a function of phi" through two paths of the real code: vars={phi} on the point without '
        'phi (what _phiharmonic uses) and fresh points that carry phi, evaluated without vars (vectorised on the reference grid for every case, '
        'point by point at the 10 Gauss-Legendre nodes for a fixed share); where they differ the harmonic is compared with the Fourier '
        'coefficient of the explicit-phi scan ("harmonic-vs-explicit-phi/...", 1 % of scale).  Every 4th configuration of the harmonic '
        'correspondence and of stream B is a transverse target whose angle is an explicit varphi (0, pi, pi/2, random in [0, 2pi)) instead of varFTn',
        'oracle streams support the theorems (quadrature accuracy is outside them), they replace none']
    rep.assumptions += [
        'model vs code tolerance 1e-12 of the sum of absolute terms of the quadrature sum (numpy pairwise summation and vectorised vs scalar '
        'evaluation of the integrand differ from the left fold at rounding level)',
        'the Hquadrature / tquadrature rules are probed from gepard.quadrature as data (abscissas, weights); the model applies the same affine map',
        'the two evaluation paths of "the observable at explicit phi" (vars={phi} vs points carrying phi) are taken to agree when they differ by at most '
        '1e-9 of max_phi |observable| (+ 1e-13 absolute for asymmetries): both evaluate the same formulas on the same numbers; the largest difference '
        'seen is in coverage.explicit_phi_max_path_difference_over_scale',
        'stream B skips asymmetries whose modulus exceeds 1 somewhere in phi (a cross section of that random CFF set is negative there) and '
        'observables that vanish identically',
        'floating point: theorems are over ℝ; the literal 65.14079453579676 equals pi alpha^2 GeV2nb to 2 ulp (checked on every run)']
    return rep.finish(level='proof', checker_cmd='tools/regen.py (py2lean + templates) ; lake build Props.C08 ; #print axioms ; gepdriver c08.* / c06.* vs dvcs.py, theory.py, quadrature.py, kinematics.py',
                      trusted=['Lean 4.33 kernel', 'tools/py2lean.py and the hand-written Scalar/Harm.lean.in (both validated by correspondence on every run)',
                               'scipy.integrate.quad / periodic trapezoid as reference integrators (oracle streams only)', 'harness/props/C08.py'])


PROVIDER_BASES = {'hybrid-free-pole': ('PWNormGPD', 'HybridFreePoleCFF'), 'hybrid-fixed-pole': ('PWNormGPD', 'HybridFixedPoleCFF'),
                  'hybrid-base': ('PWNormGPD', 'HybridCFF'), 'dispersive': ('DispersionFixedPoleCFF',),
                  'mellin-barnes': ('PWNormGPD', 'MellinBarnesCFF')}


def replay(path):
    import json
    d = json.load(open(path))
    print(open(path).read()[:4000])
    if 'provider' in d and 'expected' in d and 'kinematics' in d:
        # re-evaluate the case of the XGAMMA substitution stream on the current tree: exit 1 while it still fails
        import gepard as g
        kind, pset = d['provider'].split('/')
        eff = g.eff.DipoleEFF if pset in ('KM10', 'KM09a') else g.eff.KellyEFF
        bases = (eff,) + tuple(getattr(g, b) for b in PROVIDER_BASES[kind]) + (getattr(g, d['set']),)
        th = type('Replay', bases, {})()
        th.parameters.update(d['parameters'])
        kw = d['kinematics']
        code = float(th.XGAMMA(g.DataPoint(**kw)))
        pt = g.DataPoint(**kw)
        m = {nm: float(getattr(th, nm)(pt)) for nm in ['ReH', 'ImH', 'ReE', 'ImE', 'ReHt', 'ImHt', 'ReEt', 'ImEt']}
        m['F1'] = m['F2'] = 0.0
        want = float(B.theory(d['set'], m).XGAMMA(g.DataPoint(**kw)))
        bad = abs(code - want) > 1e-9 * max(abs(want), 1e-300)
        print('replayed on the current tree: XGAMMA(t) = %r, constant-CFF theory with the reported values = %r -> %s'
              % (code, want, 'STILL FAILS' if bad else 'holds now'))
        return 1 if bad else 0
    return 0

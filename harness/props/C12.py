"""C12 — predictions are pure: no hidden state, no mutation of points, datasets or parameters.

Lean: Props/C12.lean over Model/Predict.lean — cache refinement (lookup = recomputation), parameter
and point frame conditions incl. failing calls, history independence for every call sequence.
Correspondence: random interleavings of predict / observable / CFF / chisq / XSintphi / XGAMMA calls
(with parameters=…, uncertainty=True, orig_conventions=True, failing calls) on the SHARED module-level
theories and bundled points; after every call the parameter dictionary and the point are compared
with what the model says (unchanged) and the returned value bit-for-bit with the same call on a
freshly constructed theory and a fresh copy of the point (the model's cache-free specification).
"""
import copy
import hashlib

import numpy as np

import common
import fixtures
from common import f2hex

DERIVED = ('ng', 'Eng', 'kapg')     # defined as functions of other parameters inside the GPD model


def dig(v):
    if isinstance(v, float):
        return f2hex(v)[-8:] + f2hex(v)[:4]
    return hashlib.sha1(repr(v).encode()).hexdigest()[:10]


def params_tokens(d):
    return ['%s=%s' % (k, dig(v)) for k, v in d.items() if k not in DERIVED]


def pt_tokens(pt):
    out = []
    for k, v in pt.items():
        if k == 'dataset':
            continue
        if isinstance(v, (dict, list)):
            v = repr(sorted(v.items())) if isinstance(v, dict) else repr(v)
        out.append('%s=%s' % (k, dig(v)))
    return out


def canon_result(r):
    if isinstance(r, tuple):
        return 'T(' + ','.join(canon_result(x) for x in r) + ')'
    if isinstance(r, np.ndarray):
        return 'A(' + ','.join(f2hex(float(x)) for x in r.ravel()) + ')'
    try:
        return f2hex(float(r))
    except Exception:
        return repr(r)


def fresh_factories():
    """name -> (shared theory, constructor of a fresh equal theory)"""
    from gepard import fits
    out = {}
    for name in ['KM09a', 'KM09b', 'KM10b', 'KM15', 'AFKM12']:
        th = getattr(fits, 'th_' + name)
        kw = {'residualt': 'exp'} if name == 'AFKM12' else {}
        out[name] = (th, type(th), kw)
    return out


def call_real(th, pt, op):
    """perform op on (th, pt); returns canonical result or exception name"""
    kind = op['kind']
    try:
        if kind == 'predict':
            r = th.predict(pt, **op['kw'])
        elif kind == 'method':
            r = getattr(th, op['name'])(pt)
        elif kind == 'chisq':
            import gepard as g
            r = th.chisq(g.DataSet(op['pts']), **op['kw'])
        else:
            raise RuntimeError(kind)
        return canon_result(r)
    except Exception as e:
        return 'EXC:' + type(e).__name__


def config_stream(rep, rng, quick):
    import json
    import os
    import subprocess
    import tempfile
    import gepard as g
    params = {'ns': 0.15, 'al0s': 1.1, 'alps': 0.15, 'ms2': 1.0, 'secs': 0.2, 'al0g': 1.2, 'alpg': 0.15, 'mg2': 0.7,
              'secg': -0.5, 'this': 0.0, 'thig': 0.0, 'kaps': 0.7, 'Ens': 0.25, 'Esecs': 0.1}
    configs = [dict(p=0), dict(p=1, scheme='csbar'), dict(p=0, Q02=2.0), dict(p=1, scheme='msbar')] if not quick else \
        [dict(p=0), dict(p=1, scheme='csbar'), dict(p=0, Q02=2.0)]
    bases = ['PWNormGPD', 'MellinBarnesCFF', 'MellinBarnesTFF', 'DIS', 'BMK', 'DVMP']
    Q2s = [rng.choice([4.0, 8.5, 12.0, 25.0]) for _ in range(2 if quick else 5)]
    jobs = []
    for q in Q2s:
        xB = rng.uniform(0.001, 0.05)
        for ci, kw in enumerate(configs):
            spec = dict(bases=bases, kwargs=kw, params=params)
            jobs.append(dict(theory=spec, cfg=ci, op='DISF2', point=dict(xB=xB, Q2=q)))
            jobs.append(dict(theory=spec, cfg=ci, op='predict', observable='ImH', point=dict(xB=xB, Q2=q, t=-0.2)))
            jobs.append(dict(theory=spec, cfg=ci, op='Hx', point=dict(x=xB, eta=0, t=0, Q2=q)))
            jobs.append(dict(theory=spec, cfg=ci, op='Ex', point=dict(x=xB, eta=xB, t=-0.2, Q2=q)))
            jobs.append(dict(theory=spec, cfg=ci, op='predict', observable='ImE', point=dict(xB=xB, Q2=q, t=-0.2)))
            jobs.append(dict(theory=spec, cfg=ci, op='predict', observable='XGAMMA',
                             point=dict(W=82., Q2=q, t=-0.2, process='gammastarp2rho0p')))
            jobs.append(dict(theory=spec, cfg=ci, op='predict', observable='XGAMMA',
                             point=dict(W=82., Q2=q, t=-0.2, process='gammastarp2gammap')))
    rng.shuffle(jobs)      # DVCS-, DVMP- and DIS-type quantities at the same scale in either order on the shared object
    # main process: one SHARED theory object per configuration, jobs in the listed order
    import ref_eval
    shared = {}
    main_res = []
    for j in jobs:
        th = shared.get(j['cfg'])
        if th is None:
            th = shared[j['cfg']] = ref_eval.build(j['theory'])
        pt = g.DataPoint(**j['point'])
        try:
            r = th.predict(pt, observable=j['observable']) if j['op'] == 'predict' else getattr(th, j['op'])(pt)
            main_res.append(ref_eval.canon(r))
        except Exception as e:
            main_res.append('EXC:' + type(e).__name__)
    # ---- the memo tables of the shared objects versus Model/Memo.lean (keys in insertion order) and versus
    #      recomputation (TableOK: every stored table is what calc_wce gives now) ----
    import numpy as np
    from gepard import wilson
    which = {('predict', 'ImH'): 'wce', ('predict', 'ImE'): 'wce', ('predict', 'XGAMMA', 'gammastarp2gammap'): 'wce',
             ('predict', 'XGAMMA', 'gammastarp2rho0p'): 'wce_dvmp', ('DISF2',): 'wce_dis'}
    mlines, mmeta = [], []
    for ci, th in sorted(shared.items()):
        for attr, pc in (('wce', 'DVCS'), ('wce_dvmp', 'DVMP'), ('wce_dis', 'DIS')):
            hist = []
            for j, r in zip(jobs, main_res):
                if j['cfg'] != ci or r.startswith('EXC:'):
                    continue
                k = (j['op'], j['observable'], j['point'].get('process')) if j.get('observable') == 'XGAMMA' else \
                    ((j['op'], j['observable']) if j['op'] == 'predict' else (j['op'],))
                if which.get(k) == attr:
                    hist.append(repr(float(j['point']['Q2'])))
            tbl = getattr(th, attr, None)
            mlines.append('c12.memo ' + ' '.join(hist))
            mmeta.append((ci, attr, pc, th, hist, None if tbl is None else [repr(float(k)) for k in tbl]))
    mout = common.run_driver(mlines)
    for (ci, attr, pc, th, hist, keys), o in zip(mmeta, mout):
        rep.case('memo-table', (ci, attr, tuple(hist)), sample=dict(config=ci, table=attr, lookups=hist, keys=keys) if ci == 0 else None)
        if keys is None or keys != o.split():
            rep.violation('memo/keys/' + attr, 'table %s of the shared theory (configuration %d) holds the keys %s after the lookups %s; '
                          'a table keyed by Q2 alone holds %s' % (attr, ci, keys, hist, o.split()),
                          dict(config=ci, table=attr, lookups=hist, keys=keys, model=o.split()), found_input=False)
            continue
        for q, stored in getattr(th, attr).items():
            fresh = wilson.calc_wce(th, q, pc)
            fresh = fresh[0, :, :] if attr == 'wce_dis' else fresh
            if not np.array_equal(np.asarray(stored), np.asarray(fresh)):
                rep.violation('memo/stale/' + attr, 'table %s[%r] of the shared theory (configuration %d) is not what '
                              'wilson.calc_wce(th, %r, %r) gives now: max deviation %g' % (
                                  attr, q, ci, q, pc, float(np.max(np.abs(np.asarray(stored) - np.asarray(fresh))))),
                              dict(config=ci, table=attr, Q2=q, theory=jobs[0]['theory']['bases']))
    order = list(range(len(jobs)))[::-1]
    fd, path = tempfile.mkstemp(suffix='.json', dir=os.path.join(common.VERIF, 'replays'))
    os.close(fd)
    try:
        json.dump([jobs[i] for i in order], open(path, 'w'))
        rc, out, err = common.sh(['/venv/bin/python', os.path.join(common.VERIF, 'harness', 'ref_eval.py'), path], timeout=1200)
    finally:
        os.remove(path)
    if rc != 0:
        raise RuntimeError('reference interpreter failed: ' + err[-500:])
    ref = json.loads(out.strip().splitlines()[-1])
    ref_by_job = {i: r for i, r in zip(order, ref)}
    for i, (j, r) in enumerate(zip(jobs, main_res)):
        rep.hist('config.result', 'exception ' + r if r.startswith('EXC:') else 'value')
        rep.case('config', (i, j['cfg'], j['op'], j.get('observable'), j['point'].get('Q2')), nontrivial=not r.startswith('EXC:'),
                 sample=dict(config=j['theory']['kwargs'], op=j['op'], observable=j.get('observable'), Q2=j['point'].get('Q2')) if i < 3 else None)
        if r != ref_by_job[i]:
            rep.violation('config/%s/%s' % (j['op'], j.get('observable', '')),
                          '%s%s of theory %s %s at Q2=%s returns %s in a session that also evaluated other configurations, '
                          'but %s on fresh objects in a fresh interpreter' % (j['op'], '(%s)' % j.get('observable') if j.get('observable') else '',
                                                                             bases, j['theory']['kwargs'], j['point'].get('Q2'), r[:40], ref_by_job[i][:40]),
                          dict(job=j, shared_session=r, fresh_interpreter=ref_by_job[i]))


def ftn_stream(rep, rng, quick):
    import gepard as g
    from gepard import fits
    cand = []
    for k in sorted(g.dset):
        for p in g.dset[k]:
            if p.get('process') in ('ep2epgamma', 'en2engamma') and 'FTn' in p and 't' in p:
                cand.append(p)
    zero = [p for p in cand if p['FTn'] == 0]
    pool = (rng.sample(zero, min(len(zero), 6 if quick else 60)) + rng.sample(cand, min(len(cand), 6 if quick else 60)))
    ths = [fits.th_KM09a, fits.th_KM15] if not quick else [fits.th_KM09a]
    for th in ths:
        for p in pool:
            before = dict(p)
            for op in ('XSintphi', 'predict'):
                try:
                    if op == 'predict':
                        th.predict(p)
                    else:
                        th.XSintphi(p)
                    out = 'ok'
                except Exception as e:
                    out = 'EXC:' + type(e).__name__
                rep.case('ftn', (id(p), op, th.name), sample=dict(dataset=p.get('id'), FTn=p.get('FTn'), op=op, outcome=out) if p is pool[0] else None)
                if dict(p) != before:
                    changed = {k: (before.get(k), p.get(k)) for k in set(before) | set(p) if before.get(k, None) is not p.get(k, None) and before.get(k) != p.get(k)}
                    rep.violation('point/%s/FTn=%s' % (op, before.get('FTn')),
                                  'bundled point of dataset %s (FTn=%r, observable %s) changed by %s on theory %s: %s' % (
                                      p.get('id'), before.get('FTn'), p.get('observable'), op, th.name, changed),
                                  dict(dataset=p.get('id'), FTn=before.get('FTn'), op=op, changed=str(changed)))
                    p.clear(); p.update(before)       # repair the shared point for the rest of the run


def run(rep):
    import gepard as g
    from props.C17 import pt_fingerprint
    rng = rep.rng
    ok, why = common.lean_side(rep, 'C12')
    quick = rep.tier == 'quick'
    from gepard import fits
    fac = fresh_factories()
    names = ['KM09a', 'KM09b', 'KM15', 'KM10b'] + ([] if quick else ['AFKM12'])
    # dataset fingerprints before anything is evaluated
    ds_before = {k: [pt_fingerprint(p) for p in g.dset[k]] for k in g.dset}
    nhist = 45 if quick else 400
    lines, hist = [], []
    for h in range(nhist):
        name = rng.choice(names)
        th, cls, ckw = fac[name]
        pool = [p for p in getattr(fits, 'pts_' + name) if p.get('err')]
        pt = rng.choice(pool)
        # configuration for uncertainty=True: errors for the free parameters (same on fresh theories)
        free = th.free_parameters()
        perr = {p: 0.01 * abs(th.parameters[p]) + 1e-3 for p in free}
        th.parameters_errors = dict(perr)
        if hasattr(th, 'covariance'):
            th.covariance = {}
        p0 = dict(th.parameters)
        pt0 = pt.copy()
        qid = {}
        ops = []
        for _ in range(rng.randint(3, 8 if quick else 14)):
            r = rng.random()
            target = pt
            if r < 0.2:
                op = dict(kind='predict', kw={})
            elif r < 0.32:
                op = dict(kind='predict', kw={'observable': rng.choice(['ImH', 'ReH', 'ImHt', 'ReE', 'XS' if 'phi' in pt else 'ImE'])})
            elif r < 0.5:
                keys = [k for k in th.parameters if k not in DERIVED and isinstance(th.parameters[k], float)]
                ov = {k: th.parameters[k] * (1 + 0.3 * rng.random()) + 0.01 for k in rng.sample(keys, min(2, len(keys)))}
                if rng.random() < 0.3:
                    ov['verif_new_key'] = 1.25
                op = dict(kind='predict', kw={'parameters': ov})
                if rng.random() < 0.4:
                    op['kw']['observable'] = rng.choice(['nope_observable', 'ImH'])
            elif r < 0.58 and len(free) <= 6:
                op = dict(kind='predict', kw={'uncertainty': True, 'observable': rng.choice(['ImH', 'ReH'])})
            elif r < 0.66:
                op = dict(kind='predict', kw={'orig_conventions': True})
            elif r < 0.74:
                op = dict(kind='predict', kw={'observable': 'no_such_observable'})
            elif r < 0.82:
                op = dict(kind='method', name=rng.choice(['XSintphi', 'XGAMMA', 'ImH', 'XUU', 'XLU']))
            elif r < 0.9:
                op = dict(kind='chisq', pts=rng.sample(pool, min(3, len(pool))), kw={'asym': rng.random() < 0.5})
            elif r < 0.95:
                # missing kinematics: evaluate on a shared point that lacks t
                op = dict(kind='predict', kw={'observable': rng.choice(['XGAMMA', 'ImH'])}, strip='t')
            else:
                # a t-integrated observable whose integrand cannot be evaluated (no xB / W on the point, or a
                # process the theory has no formula for): the call fails inside the integration loop
                op = dict(kind='predict', kw={'observable': 'XGAMMA'}, strip=rng.choice(['xBW', 'dvmp']))
            ops.append(op)
        # ---- run on the shared objects ----
        real = []
        for op in ops:
            if op.get('strip'):
                tgt = pt.copy()
                for k in ('t', 'tm'):
                    tgt.pop(k, None)
                if op['strip'] == 'xBW':
                    for k in ('xB', 'W', 'xi'):
                        tgt.pop(k, None)
                elif op['strip'] == 'dvmp':
                    tgt['process'] = 'gammastarp2rho0p'
                op['target'] = tgt
                op['target0'] = tgt.copy()
            else:
                op['target'] = pt
                op['target0'] = pt0
            res = call_real(th, op['target'], op)
            real.append((res, params_tokens(th.parameters), pt_tokens(op['target'])))
            rep.hist('op', op['kind'] + ':' + ','.join(sorted(op.get('kw', {}))) + (op.get('name', '')) + ('/exc' if res.startswith('EXC') else ''))
        # ---- the specification: same call, fresh theory, fresh copy of the point ----
        spec = []
        for op in ops:
            fth = cls(**ckw)
            fth.parameters.update(p0)
            fth.parameters_errors = dict(perr)
            if hasattr(th, 'covariance'):
                fth.covariance = {}
            fop = dict(op)
            if op['kind'] == 'chisq':
                fop['pts'] = [p.copy() for p in op['pts']]
            spec.append(call_real(fth, op['target0'].copy(), fop))
        hist.append(dict(theory=name, dataset=pt.get('id'), ops=ops, real=real, spec=spec,
                         p0=params_tokens(p0), pt0=pt_tokens(pt0)))
        # model line (the point section describes the shared point; stripped targets are separate points,
        # modelled as their own one-call histories below)
        calls = []
        for op in ops:
            q = qid.setdefault(op['target0'].get('Q2'), len(qid))
            obsname = op.get('name') or op.get('kw', {}).get('observable') or (op['kind'])
            use = 'copy'
            ov = op.get('kw', {}).get('parameters')
            ovr = 'none' if ov is None else (','.join('%s=%s' % (k, dig(v)) for k, v in ov.items() if k not in DERIVED) or '-')
            calls.append('%s %d %s %s' % (obsname, q, use, ovr))
        lines.append('c12.run P %s T %s K t FTn O %s' % (' '.join(params_tokens(p0)), ' '.join(pt_tokens(pt0)), ' ; '.join(calls)))
    outs = common.run_driver(lines)
    for line, H, o in zip(lines, hist, outs):
        rep.case('history', line, sample=dict(theory=H['theory'], dataset=H['dataset'],
                                              ops=[(op['kind'], sorted(op.get('kw', {})), op.get('name')) for op in H['ops']],
                                              results=[r[0][:20] for r in H['real']]))
        if o == 'bad-op':
            rep.violation('harness/bad-op', 'driver rejected line', dict(line=line[:500]), found_input=False)
            continue
        segs = o.split(' ;; ')
        for i, (op, (res, ptoks, pttoks), sp, seg) in enumerate(zip(H['ops'], H['real'], H['spec'], segs)):
            mkey, mparams, mpt = seg.split(' ')
            opdesc = (op['kind'], {k: (v if k != 'parameters' else sorted(v)) for k, v in op.get('kw', {}).items()}, op.get('name'))
            prev = [(p['kind'], sorted(p.get('kw', {})), p.get('name')) for p in H['ops'][:i]]
            base = dict(theory=H['theory'], dataset=H['dataset'], op=str(opdesc), previous_ops=str(prev))
            # (1) parameters unchanged — model says so; property says so
            if ptoks != H['p0']:
                changed = sorted(set(ptoks) ^ set(H['p0']))
                rep.violation('params/%s/%s' % (op['kind'], ','.join(sorted(op.get('kw', {}))) + ('/exc' if res.startswith('EXC') else '')),
                              'theory parameters changed by %s on shared theory %s: %s' % (opdesc, H['theory'], changed[:6]),
                              dict(base, changed=changed))
                break
            if ','.join(ptoks) != mparams and not (mparams == '-' and not ptoks):
                rep.violation('model/params', 'model params differ from code', dict(base, model=mparams[:300]), found_input=False)
                break
            # (2) point unchanged
            if not op.get('strip'):
                if sorted(pttoks) != sorted(H['pt0']):
                    changed = sorted(set(pttoks) ^ set(H['pt0']))
                    rep.violation('point/%s%s' % (op.get('name') or op['kind'], '/exc' if res.startswith('EXC') else ''),
                                  'DataPoint changed by %s (theory %s): %s' % (opdesc, H['theory'], changed[:6]),
                                  dict(base, changed=changed))
                    break
                if sorted(mpt.split(',')) != sorted(H['pt0']):
                    rep.violation('model/point', 'model point differs from code', dict(base), found_input=False)
                    break
            else:
                if sorted(pttoks) != sorted(pt_tokens(op['target0'])):
                    changed = sorted(set(pttoks) ^ set(pt_tokens(op['target0'])))
                    rep.violation('point/missing-kinematics/%s' % (op.get('kw', {}).get('observable')),
                                  'DataPoint without t changed by failing %s: %s' % (opdesc, changed[:6]), dict(base, changed=changed))
                    break
            # (3) value = cache-free specification on fresh objects, bit for bit
            if res != sp:
                rep.violation('value/%s/%s' % (op['kind'], ','.join(sorted(op.get('kw', {}))) or op.get('name', '')),
                              '%s on shared theory %s after %d earlier calls returns %s; the same call on a freshly '
                              'constructed theory and fresh point copy returns %s' % (opdesc, H['theory'], i, res[:80], sp[:80]),
                              dict(base, shared=res, fresh=sp))
                break
    # ---- configuration stream: differently configured theories of the SAME classes evaluated at common
    # scales in one session (per-theory caches keyed by Q2 only), against a fresh interpreter that evaluates
    # every job on fresh objects in the reverse order ----
    config_stream(rep, rng, quick)
    # ---- points carrying FTn = 0 / unusual harmonic values through XSintphi and friends ----
    ftn_stream(rep, rng, quick)
    # bundled datasets unchanged
    for k in g.dset:
        now = [pt_fingerprint(p) for p in g.dset[k]]
        if now != ds_before[k]:
            idx = [i for i, (a, b) in enumerate(zip(now, ds_before[k])) if a != b][:3]
            rep.violation('dataset/%s' % k, 'bundled dataset %s changed by evaluations (points %s)' % (k, idx), dict(dataset=k, points=idx))
    rep.case('datasets', 'all', sample=dict(datasets=len(g.dset)))
    if not ok and not rep.violations:
        rep.violation('lean', 'Lean side of C12 no longer checks: ' + why, dict(reason=why), found_input=False)
    rep.assumptions += ['parameters defined as functions of others (ng, Eng, kapg) are exempt, as the property says',
                        'an observable is a function of (configuration, parameters, kinematics): absence of hidden state '
                        'inside numpy/scipy and unmodelled code paths is what the bit-identical comparison with fresh objects observes']
    return rep.finish(level='proof', checker_cmd='lake build Props.C12; #print axioms; gepdriver c12.run vs shared gepard.fits theories',
                      trusted=['Lean 4.33 kernel', 'Model/Predict.lean', 'harness/props/C12.py'])


def replay(path):
    print(open(path).read()[:3000])
    return 0

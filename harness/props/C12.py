"""C12 — predictions are pure: no hidden state, no mutation of points, datasets or parameters.

Lean: Props/C12.lean over Model/Predict.lean — cache refinement (lookup = recomputation), parameter
and point frame conditions incl. failing calls, history independence for every call sequence.
Correspondence: random interleavings of predict / observable / CFF / chisq / XSintphi / XGAMMA calls
(with parameters=…, uncertainty=True, orig_conventions=True, failing calls) on the SHARED module-level
theories and bundled points; after every call the parameter dictionary and the point are compared
with what the model says (unchanged) and the returned value bit-for-bit with the same call on a
freshly constructed theory and a fresh copy of the point (the model's cache-free specification).
"""
import copy
import hashlib

import numpy as np

import common
import fixtures
from common import f2hex

DERIVED = ('ng', 'Eng', 'kapg')     # defined as functions of other parameters inside the GPD model


def dig(v):
    if isinstance(v, float):
        return f2hex(v)[-8:] + f2hex(v)[:4]
    return hashlib.sha1(repr(v).encode()).hexdigest()[:10]


def params_tokens(d):
    return ['%s=%s' % (k, dig(v)) for k, v in d.items() if k not in DERIVED]


def pt_tokens(pt):
    out = []
    for k, v in pt.items():
        if k == 'dataset':
            continue
        if isinstance(v, (dict, list)):
            v = repr(sorted(v.items())) if isinstance(v, dict) else repr(v)
        out.append('%s=%s' % (k, dig(v)))
    return out


def canon_result(r):
    if isinstance(r, tuple):
        return 'T(' + ','.join(canon_result(x) for x in r) + ')'
    if isinstance(r, np.ndarray):
        return 'A(' + ','.join(f2hex(float(x)) for x in r.ravel()) + ')'
    try:
        return f2hex(float(r))
    except Exception:
        return repr(r)


def fresh_factories():
    """name -> (shared theory, constructor of a fresh equal theory)"""
    from gepard import fits
    out = {}
    for name in ['KM09a', 'KM09b', 'KM10b', 'KM15', 'AFKM12']:
        th = getattr(fits, 'th_' + name)
        kw = {'residualt': 'exp'} if name == 'AFKM12' else {}
        out[name] = (th, type(th), kw)
    return out


def call_real(th, pt, op):
    """perform op on (th, pt); returns canonical result or exception name"""
    kind = op['kind']
    try:
        if kind == 'predict':
            r = th.predict(pt, **op['kw'])
        elif kind == 'method':
            r = getattr(th, op['name'])(pt)
        elif kind == 'chisq':
            import gepard as g
            r = th.chisq(g.DataSet(op['pts']), **op['kw'])
        else:
            raise RuntimeError(kind)
        return canon_result(r)
    except Exception as e:
        return 'EXC:' + type(e).__name__


def run(rep):
    import gepard as g
    from props.C17 import pt_fingerprint
    rng = rep.rng
    ok, why = common.lean_side(rep, 'C12')
    quick = rep.tier == 'quick'
    from gepard import fits
    fac = fresh_factories()
    names = ['KM09a', 'KM09b', 'KM15', 'KM10b'] + ([] if quick else ['AFKM12'])
    # dataset fingerprints before anything is evaluated
    ds_before = {k: [pt_fingerprint(p) for p in g.dset[k]] for k in g.dset}
    nhist = 45 if quick else 400
    lines, hist = [], []
    for h in range(nhist):
        name = rng.choice(names)
        th, cls, ckw = fac[name]
        pool = [p for p in getattr(fits, 'pts_' + name) if p.get('err')]
        pt = rng.choice(pool)
        # configuration for uncertainty=True: errors for the free parameters (same on fresh theories)
        free = th.free_parameters()
        perr = {p: 0.01 * abs(th.parameters[p]) + 1e-3 for p in free}
        th.parameters_errors = dict(perr)
        if hasattr(th, 'covariance'):
            th.covariance = {}
        p0 = dict(th.parameters)
        pt0 = pt.copy()
        qid = {}
        ops = []
        for _ in range(rng.randint(3, 8 if quick else 14)):
            r = rng.random()
            target = pt
            if r < 0.2:
                op = dict(kind='predict', kw={})
            elif r < 0.32:
                op = dict(kind='predict', kw={'observable': rng.choice(['ImH', 'ReH', 'ImHt', 'ReE', 'XS' if 'phi' in pt else 'ImE'])})
            elif r < 0.5:
                keys = [k for k in th.parameters if k not in DERIVED and isinstance(th.parameters[k], float)]
                ov = {k: th.parameters[k] * (1 + 0.3 * rng.random()) + 0.01 for k in rng.sample(keys, min(2, len(keys)))}
                if rng.random() < 0.3:
                    ov['verif_new_key'] = 1.25
                op = dict(kind='predict', kw={'parameters': ov})
                if rng.random() < 0.4:
                    op['kw']['observable'] = rng.choice(['nope_observable', 'ImH'])
            elif r < 0.58 and len(free) <= 6:
                op = dict(kind='predict', kw={'uncertainty': True, 'observable': rng.choice(['ImH', 'ReH'])})
            elif r < 0.66:
                op = dict(kind='predict', kw={'orig_conventions': True})
            elif r < 0.74:
                op = dict(kind='predict', kw={'observable': 'no_such_observable'})
            elif r < 0.82:
                op = dict(kind='method', name=rng.choice(['XSintphi', 'XGAMMA', 'ImH', 'XUU', 'XLU']))
            elif r < 0.9:
                op = dict(kind='chisq', pts=rng.sample(pool, min(3, len(pool))), kw={'asym': rng.random() < 0.5})
            else:
                # missing kinematics: evaluate on a shared point that lacks t
                op = dict(kind='predict', kw={'observable': rng.choice(['XGAMMA', 'ImH'])}, strip='t')
            ops.append(op)
        # ---- run on the shared objects ----
        real = []
        for op in ops:
            if op.get('strip'):
                tgt = pt.copy()
                for k in ('t', 'tm'):
                    tgt.pop(k, None)
                op['target'] = tgt
                op['target0'] = tgt.copy()
            else:
                op['target'] = pt
                op['target0'] = pt0
            res = call_real(th, op['target'], op)
            real.append((res, params_tokens(th.parameters), pt_tokens(op['target'])))
            rep.hist('op', op['kind'] + ':' + ','.join(sorted(op.get('kw', {}))) + (op.get('name', '')) + ('/exc' if res.startswith('EXC') else ''))
        # ---- the specification: same call, fresh theory, fresh copy of the point ----
        spec = []
        for op in ops:
            fth = cls(**ckw)
            fth.parameters.update(p0)
            fth.parameters_errors = dict(perr)
            if hasattr(th, 'covariance'):
                fth.covariance = {}
            fop = dict(op)
            if op['kind'] == 'chisq':
                fop['pts'] = [p.copy() for p in op['pts']]
            spec.append(call_real(fth, op['target0'].copy(), fop))
        hist.append(dict(theory=name, dataset=pt.get('id'), ops=ops, real=real, spec=spec,
                         p0=params_tokens(p0), pt0=pt_tokens(pt0)))
        # model line (the point section describes the shared point; stripped targets are separate points,
        # modelled as their own one-call histories below)
        calls = []
        for op in ops:
            q = qid.setdefault(op['target0'].get('Q2'), len(qid))
            obsname = op.get('name') or op.get('kw', {}).get('observable') or (op['kind'])
            use = 'copy'
            ov = op.get('kw', {}).get('parameters')
            ovr = 'none' if ov is None else (','.join('%s=%s' % (k, dig(v)) for k, v in ov.items() if k not in DERIVED) or '-')
            calls.append('%s %d %s %s' % (obsname, q, use, ovr))
        lines.append('c12.run P %s T %s K t FTn O %s' % (' '.join(params_tokens(p0)), ' '.join(pt_tokens(pt0)), ' ; '.join(calls)))
    outs = common.run_driver(lines)
    for line, H, o in zip(lines, hist, outs):
        rep.case('history', line, sample=dict(theory=H['theory'], dataset=H['dataset'],
                                              ops=[(op['kind'], sorted(op.get('kw', {})), op.get('name')) for op in H['ops']],
                                              results=[r[0][:20] for r in H['real']]))
        if o == 'bad-op':
            rep.violation('harness/bad-op', 'driver rejected line', dict(line=line[:500]), found_input=False)
            continue
        segs = o.split(' ;; ')
        for i, (op, (res, ptoks, pttoks), sp, seg) in enumerate(zip(H['ops'], H['real'], H['spec'], segs)):
            mkey, mparams, mpt = seg.split(' ')
            opdesc = (op['kind'], {k: (v if k != 'parameters' else sorted(v)) for k, v in op.get('kw', {}).items()}, op.get('name'))
            prev = [(p['kind'], sorted(p.get('kw', {})), p.get('name')) for p in H['ops'][:i]]
            base = dict(theory=H['theory'], dataset=H['dataset'], op=str(opdesc), previous_ops=str(prev))
            # (1) parameters unchanged — model says so; property says so
            if ptoks != H['p0']:
                changed = sorted(set(ptoks) ^ set(H['p0']))
                rep.violation('params/%s/%s' % (op['kind'], ','.join(sorted(op.get('kw', {}))) + ('/exc' if res.startswith('EXC') else '')),
                              'theory parameters changed by %s on shared theory %s: %s' % (opdesc, H['theory'], changed[:6]),
                              dict(base, changed=changed))
                break
            if ','.join(ptoks) != mparams and not (mparams == '-' and not ptoks):
                rep.violation('model/params', 'model params differ from code', dict(base, model=mparams[:300]), found_input=False)
                break
            # (2) point unchanged
            if not op.get('strip'):
                if sorted(pttoks) != sorted(H['pt0']):
                    changed = sorted(set(pttoks) ^ set(H['pt0']))
                    rep.violation('point/%s%s' % (op.get('name') or op['kind'], '/exc' if res.startswith('EXC') else ''),
                                  'DataPoint changed by %s (theory %s): %s' % (opdesc, H['theory'], changed[:6]),
                                  dict(base, changed=changed))
                    break
                if sorted(mpt.split(',')) != sorted(H['pt0']):
                    rep.violation('model/point', 'model point differs from code', dict(base), found_input=False)
                    break
            else:
                if sorted(pttoks) != sorted(pt_tokens(op['target0'])):
                    changed = sorted(set(pttoks) ^ set(pt_tokens(op['target0'])))
                    rep.violation('point/missing-kinematics/%s' % (op.get('kw', {}).get('observable')),
                                  'DataPoint without t changed by failing %s: %s' % (opdesc, changed[:6]), dict(base, changed=changed))
                    break
            # (3) value = cache-free specification on fresh objects, bit for bit
            if res != sp:
                rep.violation('value/%s/%s' % (op['kind'], ','.join(sorted(op.get('kw', {}))) or op.get('name', '')),
                              '%s on shared theory %s after %d earlier calls returns %s; the same call on a freshly '
                              'constructed theory and fresh point copy returns %s' % (opdesc, H['theory'], i, res[:80], sp[:80]),
                              dict(base, shared=res, fresh=sp))
                break
    # bundled datasets unchanged
    for k in g.dset:
        now = [pt_fingerprint(p) for p in g.dset[k]]
        if now != ds_before[k]:
            idx = [i for i, (a, b) in enumerate(zip(now, ds_before[k])) if a != b][:3]
            rep.violation('dataset/%s' % k, 'bundled dataset %s changed by evaluations (points %s)' % (k, idx), dict(dataset=k, points=idx))
    rep.case('datasets', 'all', sample=dict(datasets=len(g.dset)))
    if not ok and not rep.violations:
        rep.violation('lean', 'Lean side of C12 no longer checks: ' + why, dict(reason=why), found_input=False)
    rep.assumptions += ['parameters defined as functions of others (ng, Eng, kapg) are exempt, as the property says',
                        'an observable is a function of (configuration, parameters, kinematics): absence of hidden state '
                        'inside numpy/scipy and unmodelled code paths is what the bit-identical comparison with fresh objects observes']
    return rep.finish(level='proof', checker_cmd='lake build Props.C12; #print axioms; gepdriver c12.run vs shared gepard.fits theories',
                      trusted=['Lean 4.33 kernel', 'Model/Predict.lean', 'harness/props/C12.py'])


def replay(path):
    print(open(path).read()[:3000])
    return 0

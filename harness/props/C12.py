"""C12 — predictions are pure: no hidden state, no mutation of points, datasets or parameters.

Lean: Props/C12.lean over Model/Predict.lean — cache refinement (lookup = recomputation), parameter
and point frame conditions incl. failing calls, history independence for every call sequence.
Correspondence: random interleavings of predict / observable / CFF / chisq / XSintphi / XGAMMA calls
(with parameters=…, uncertainty=True, orig_conventions=True, failing calls) on the SHARED module-level
theories and bundled points; after every call the parameter dictionary and the point are compared
with what the model says (unchanged) and the returned value bit-for-bit with the same call on a
freshly constructed theory and a fresh copy of the point (the model's cache-free specification).

State is compared BY VALUE: the snapshot of a point (and of the attributes of its dataset) is taken before the first
call of a history and descends into nested containers (units, newunits, errtypes ... are dictionaries / lists that a
bundled point SHARES with its dataset and with every sibling point: a shallow copy holds the very same objects).
Further streams, all against fresh objects: shared-containers (two sibling points of every bundled dataset whose
loading changed conventions, orig_conventions / plain predictions interleaved); special-values (consecutive
evaluations on one object that differ in exactly one input - t, Q2 or one parameter - taking small integer values,
among them the pairs that are different numbers with the same hash() in CPython, e.g. -1 and -2).
"""
import copy
import hashlib
import sys

import numpy as np

import common
import fixtures
from common import f2hex

DERIVED = ('ng', 'Eng', 'kapg')     # defined as functions of other parameters inside the GPD model


def dig(v):
    if isinstance(v, float):
        return f2hex(v)[-8:] + f2hex(v)[:4]
    return hashlib.sha1(repr(v).encode()).hexdigest()[:10]


def params_tokens(d):
    return ['%s=%s' % (k, dig(v)) for k, v in d.items() if k not in DERIVED]


def deep_canon(v):
    """canonical text of a value, BY VALUE, descending into containers (floats by bit pattern)"""
    if isinstance(v, dict):
        return '{' + ','.join(sorted(repr(k) + ':' + deep_canon(x) for k, x in v.items())) + '}'
    if isinstance(v, (list, tuple)):
        return '[' + ','.join(deep_canon(x) for x in v) + ']'
    if isinstance(v, (set, frozenset)):
        return 'S{' + ','.join(sorted(deep_canon(x) for x in v)) + '}'
    if isinstance(v, np.ndarray):
        return 'A%s:%s' % (v.shape, hashlib.sha1(np.ascontiguousarray(v).tobytes()).hexdigest()[:12])
    if isinstance(v, float):
        return f2hex(v)
    return repr(v)


CONTAINERS = (dict, list, set, np.ndarray)


def pt_tokens(pt):
    """the state of a point as tokens name=digest; containers by value (a later call sees a mutation of a nested
    dictionary even if the snapshot it is compared with holds the same object)"""
    out = []
    for k, v in pt.items():
        if k == 'dataset':
            continue
        if isinstance(v, CONTAINERS + (tuple,)):
            v = deep_canon(v)
        out.append('%s=%s' % (k, dig(v)))
    return out


def deep_point(pt):
    """a copy of the point that shares no mutable attribute with it (the back-reference to the dataset is kept)"""
    c = pt.copy()
    for k, v in list(c.items()):
        if k != 'dataset' and isinstance(v, CONTAINERS):
            c[k] = copy.deepcopy(v)
    return c


def ds_tokens(ds):
    """attributes of a DataSet (units, newunits, preamble keys ...) by value"""
    return sorted('%s=%s' % (k, dig(deep_canon(v))) for k, v in getattr(ds, '__dict__', {}).items())


def restore_point(p, p0):
    """put a shared point back to the snapshot p0 (a deep_point taken before), nested containers in place"""
    for k, v in p0.items():
        cur = p.get(k)
        if k != 'dataset' and isinstance(v, dict) and isinstance(cur, dict):
            cur.clear()
            cur.update(copy.deepcopy(v))
        elif k != 'dataset' and isinstance(v, list) and isinstance(cur, list):
            cur[:] = copy.deepcopy(v)
        else:
            p[k] = v
    for k in [k for k in p if k not in p0]:
        del p[k]


def same_result(a, b):
    """canonical results equal; two results that both contain a NaN count as equal (payload bits are not compared)"""
    nan = ('7ff8', 'fff8', '7ff0', 'fff0')
    return a == b or (not a.startswith('EXC') and not b.startswith('EXC') and
                      any(t in a for t in nan) and any(t in b for t in nan) and len(a) == len(b))


def canon_result(r):
    if isinstance(r, tuple):
        return 'T(' + ','.join(canon_result(x) for x in r) + ')'
    if isinstance(r, np.ndarray):
        return 'A(' + ','.join(f2hex(float(x)) for x in r.ravel()) + ')'
    try:
        return f2hex(float(r))
    except Exception:
        return repr(r)


def fresh_factories():
    """name -> (shared theory, constructor of a fresh equal theory)"""
    from gepard import fits
    out = {}
    for name in ['KM09a', 'KM09b', 'KM10b', 'KM15', 'AFKM12']:
        th = getattr(fits, 'th_' + name)
        kw = {'residualt': 'exp'} if name == 'AFKM12' else {}
        out[name] = (th, type(th), kw)
    return out


def call_real(th, pt, op):
    """perform op on (th, pt); returns canonical result or exception name"""
    kind = op['kind']
    try:
        if kind == 'predict':
            r = th.predict(pt, **op['kw'])
        elif kind == 'method':
            r = getattr(th, op['name'])(pt)
        elif kind == 'chisq':
            import gepard as g
            r = th.chisq(g.DataSet(op['pts']), **op['kw'])
        else:
            raise RuntimeError(kind)
        return canon_result(r)
    except Exception as e:
        return 'EXC:' + type(e).__name__


def config_stream(rep, rng, quick):
    import json
    import os
    import subprocess
    import tempfile
    import gepard as g
    params = {'ns': 0.15, 'al0s': 1.1, 'alps': 0.15, 'ms2': 1.0, 'secs': 0.2, 'al0g': 1.2, 'alpg': 0.15, 'mg2': 0.7,
              'secg': -0.5, 'this': 0.0, 'thig': 0.0, 'kaps': 0.7, 'Ens': 0.25, 'Esecs': 0.1}
    configs = [dict(p=0), dict(p=1, scheme='csbar'), dict(p=0, Q02=2.0), dict(p=1, scheme='msbar')] if not quick else \
        [dict(p=0), dict(p=1, scheme='csbar'), dict(p=0, Q02=2.0)]
    bases = ['PWNormGPD', 'MellinBarnesCFF', 'MellinBarnesTFF', 'DIS', 'BMK', 'DVMP']
    Q2s = [rng.choice([4.0, 8.5, 12.0, 25.0]) for _ in range(2 if quick else 5)]
    jobs = []
    for q in Q2s:
        xB = rng.uniform(0.001, 0.05)
        for ci, kw in enumerate(configs):
            spec = dict(bases=bases, kwargs=kw, params=params)
            jobs.append(dict(theory=spec, cfg=ci, op='DISF2', point=dict(xB=xB, Q2=q)))
            jobs.append(dict(theory=spec, cfg=ci, op='predict', observable='ImH', point=dict(xB=xB, Q2=q, t=-0.2)))
            jobs.append(dict(theory=spec, cfg=ci, op='Hx', point=dict(x=xB, eta=0, t=0, Q2=q)))
            jobs.append(dict(theory=spec, cfg=ci, op='Ex', point=dict(x=xB, eta=xB, t=-0.2, Q2=q)))
            jobs.append(dict(theory=spec, cfg=ci, op='predict', observable='ImE', point=dict(xB=xB, Q2=q, t=-0.2)))
            jobs.append(dict(theory=spec, cfg=ci, op='predict', observable='XGAMMA',
                             point=dict(W=82., Q2=q, t=-0.2, process='gammastarp2rho0p')))
            jobs.append(dict(theory=spec, cfg=ci, op='predict', observable='XGAMMA',
                             point=dict(W=82., Q2=q, t=-0.2, process='gammastarp2gammap')))
    rng.shuffle(jobs)      # DVCS-, DVMP- and DIS-type quantities at the same scale in either order on the shared object
    # main process: one SHARED theory object per configuration, jobs in the listed order
    import ref_eval
    shared = {}
    main_res = []
    for j in jobs:
        th = shared.get(j['cfg'])
        if th is None:
            th = shared[j['cfg']] = ref_eval.build(j['theory'])
        pt = g.DataPoint(**j['point'])
        try:
            r = th.predict(pt, observable=j['observable']) if j['op'] == 'predict' else getattr(th, j['op'])(pt)
            main_res.append(ref_eval.canon(r))
        except Exception as e:
            main_res.append('EXC:' + type(e).__name__)
    # ---- the memo tables of the shared objects versus Model/Memo.lean (keys in insertion order) and versus
    #      recomputation (TableOK: every stored table is what calc_wce gives now) ----
    import numpy as np
    from gepard import wilson
    which = {('predict', 'ImH'): 'wce', ('predict', 'ImE'): 'wce', ('predict', 'XGAMMA', 'gammastarp2gammap'): 'wce',
             ('predict', 'XGAMMA', 'gammastarp2rho0p'): 'wce_dvmp', ('DISF2',): 'wce_dis'}
    mlines, mmeta = [], []
    for ci, th in sorted(shared.items()):
        for attr, pc in (('wce', 'DVCS'), ('wce_dvmp', 'DVMP'), ('wce_dis', 'DIS')):
            hist = []
            for j, r in zip(jobs, main_res):
                if j['cfg'] != ci or r.startswith('EXC:'):
                    continue
                k = (j['op'], j['observable'], j['point'].get('process')) if j.get('observable') == 'XGAMMA' else \
                    ((j['op'], j['observable']) if j['op'] == 'predict' else (j['op'],))
                if which.get(k) == attr:
                    hist.append(repr(float(j['point']['Q2'])))
            tbl = getattr(th, attr, None)
            mlines.append('c12.memo ' + ' '.join(hist))
            try:
                keys = None if tbl is None else [repr(float(k)) for k in tbl]
            except Exception:
                keys = ['<not-a-Q2:%r>' % (k,) for k in tbl]
            mmeta.append((ci, attr, pc, th, hist, keys))
    try:
        mout = common.run_driver(mlines)
    except common.ModelUnavailable as ex:
        mout = [None] * len(mlines)
        rep.violation('model-unavailable', 'the Lean model driver of C12 could not be run (%s): stored tables are compared with '
                      'recomputation and values with fresh objects only' % str(ex)[:300], dict(reason=str(ex)[:300]), found_input=False)
    for (ci, attr, pc, th, hist, keys), o in zip(mmeta, mout):
        if keys is None:
            # the table is not there under this name: the NAME of a cache is no part of the property (a clean-up may rename or
            # restructure it); this look at the implementation is skipped, values = fresh-object values carry the property
            common.private(rep, th, attr, 'memo-table stream (keys / recomputation of the stored coefficient tables) skipped for this table')
            rep.hist('memo-table', attr + ': absent, skipped')
            continue
        if not isinstance(getattr(th, attr), dict):
            rep.notes.append('attribute %s of the theory is no longer a dictionary keyed by Q2: memo-table stream skipped for it' % attr)
            rep.hist('memo-table', attr + ': not a dict, skipped')
            continue
        rep.case('memo-table', (ci, attr, tuple(hist)), sample=dict(config=ci, table=attr, lookups=hist, keys=keys) if ci == 0 else None)
        if o is not None and keys != o.split():
            rep.violation('memo/keys/' + attr, 'table %s of the shared theory (configuration %d) holds the keys %s after the lookups %s; '
                          'a table keyed by Q2 alone holds %s' % (attr, ci, keys, hist, o.split()),
                          dict(config=ci, table=attr, lookups=hist, keys=keys, model=o.split()), found_input=False)
            continue
        calc = common.private(rep, wilson, 'calc_wce', 'recomputation of the stored coefficient tables skipped')
        if calc is None:
            continue
        for q, stored in getattr(th, attr).items():
            fresh = calc(th, q, pc)
            fresh = fresh[0, :, :] if attr == 'wce_dis' else fresh
            if not np.array_equal(np.asarray(stored), np.asarray(fresh)):
                rep.violation('memo/stale/' + attr, 'table %s[%r] of the shared theory (configuration %d) is not what '
                              'wilson.calc_wce(th, %r, %r) gives now: max deviation %g' % (
                                  attr, q, ci, q, pc, float(np.max(np.abs(np.asarray(stored) - np.asarray(fresh))))),
                              dict(config=ci, table=attr, Q2=q, theory=jobs[0]['theory']['bases']))
    order = list(range(len(jobs)))[::-1]
    fd, path = tempfile.mkstemp(suffix='.json', dir=os.path.join(common.VERIF, 'replays'))
    os.close(fd)
    try:
        json.dump([jobs[i] for i in order], open(path, 'w'))
        rc, out, err = common.sh([sys.executable, os.path.join(common.VERIF, 'harness', 'ref_eval.py'), path], timeout=1200)
    finally:
        os.remove(path)
    if rc != 0:
        raise RuntimeError('reference interpreter failed: ' + err[-500:])
    ref = json.loads(out.strip().splitlines()[-1])
    ref_by_job = {i: r for i, r in zip(order, ref)}
    for i, (j, r) in enumerate(zip(jobs, main_res)):
        rep.hist('config.result', 'exception ' + r if r.startswith('EXC:') else 'value')
        rep.case('config', (i, j['cfg'], j['op'], j.get('observable'), j['point'].get('Q2')), nontrivial=not r.startswith('EXC:'),
                 sample=dict(config=j['theory']['kwargs'], op=j['op'], observable=j.get('observable'), Q2=j['point'].get('Q2')) if i < 3 else None)
        if r != ref_by_job[i]:
            rep.violation('config/%s/%s' % (j['op'], j.get('observable', '')),
                          '%s%s of theory %s %s at Q2=%s returns %s in a session that also evaluated other configurations, '
                          'but %s on fresh objects in a fresh interpreter' % (j['op'], '(%s)' % j.get('observable') if j.get('observable') else '',
                                                                             bases, j['theory']['kwargs'], j['point'].get('Q2'), r[:40], ref_by_job[i][:40]),
                          dict(job=j, shared_session=r, fresh_interpreter=ref_by_job[i]))


def ftn_stream(rep, rng, quick):
    import gepard as g
    from gepard import fits
    cand = []
    for k in sorted(g.dset):
        for p in g.dset[k]:
            if p.get('process') in ('ep2epgamma', 'en2engamma') and 'FTn' in p and 't' in p:
                cand.append(p)
    zero = [p for p in cand if p['FTn'] == 0]
    pool = (rng.sample(zero, min(len(zero), 6 if quick else 60)) + rng.sample(cand, min(len(cand), 6 if quick else 60)))
    ths = [fits.th_KM09a, fits.th_KM15] if not quick else [fits.th_KM09a]
    for th in ths:
        for ip, p in enumerate(pool):
            before = dict(p)
            for op in ('XSintphi', 'predict'):
                try:
                    if op == 'predict':
                        th.predict(p)
                    else:
                        th.XSintphi(p)
                    out = 'ok'
                except Exception as e:
                    out = 'EXC:' + type(e).__name__
                rep.case('ftn', (ip, p.get('id'), p.get('FTn'), op, th.name), sample=dict(dataset=p.get('id'), FTn=p.get('FTn'), op=op, outcome=out) if p is pool[0] else None)
                if dict(p) != before:
                    changed = {k: (before.get(k), p.get(k)) for k in set(before) | set(p) if before.get(k, None) is not p.get(k, None) and before.get(k) != p.get(k)}
                    rep.violation('point/%s/FTn=%s' % (op, before.get('FTn')),
                                  'bundled point of dataset %s (FTn=%r, observable %s) changed by %s on theory %s: %s' % (
                                      p.get('id'), before.get('FTn'), p.get('observable'), op, th.name, changed),
                                  dict(dataset=p.get('id'), FTn=before.get('FTn'), op=op, changed=str(changed)))
                    p.clear(); p.update(before)       # repair the shared point for the rest of the run


def fresh_theory(fac, name, p0=None):
    th, cls, ckw = fac[name]
    f = cls(**ckw)
    f.parameters.update(th.parameters if p0 is None else p0)
    return f


def shared_containers_stream(rep, rng, quick):
    """Two sibling points p, q of one bundled dataset hold the SAME units / newunits / errtypes objects (loading copies the
    dataset's attribute dictionary into every point).  Predictions for p and q are interleaved - with and without
    orig_conventions=True - on a shared shipped theory; after every call p, q and the attributes of their dataset are
    compared by value with deep snapshots taken before the first call, and the returned value with the same call on a fresh
    theory and deep copies of the points.  Every dataset whose loading changed conventions (non-empty newunits: degrees,
    pb) is visited in every run, the others by sample."""
    import gepard as g
    fac = fresh_factories()
    keys = [k for k in sorted(g.dset) if len(g.dset[k])]
    conv = [k for k in keys if g.dset[k][0].get('newunits')]
    rest = [k for k in keys if k not in conv]
    chosen = conv + (rng.sample(rest, min(len(rest), 8)) if quick else rest)
    rep.coverage['shared_containers_datasets'] = dict(conventions_changed_at_loading=len(conv), others=len(chosen) - len(conv))
    for i, k in enumerate(chosen):
        ds = g.dset[k]
        ip = rng.randrange(len(ds))
        p = ds[ip]
        shared_attrs = sorted(a for a, v in p.items() if a != 'dataset' and isinstance(v, (dict, list)))
        sib = [j for j, q in enumerate(ds) if j != ip and any(q.get(a) is p[a] for a in shared_attrs)]
        same_q2 = [j for j in sib if ds[j].get('Q2') == p.get('Q2')]
        iq = rng.choice(same_q2 or sib) if sib else None
        q = ds[iq] if iq is not None else None
        P0, Q0 = deep_point(p), (deep_point(q) if q is not None else None)
        tp0, tq0, td0 = pt_tokens(p), (pt_tokens(q) if q is not None else None), ds_tokens(ds)
        # a shipped theory that can describe the point, probed on a fresh theory and a deep copy: the dispersive KM09a (cheap) for
        # most datasets, a Mellin-Barnes based one (KM15 / AFKM12, one evolution per new Q2) for every seventh and where KM09a has no formula
        order = ['KM09a', 'KM15', 'AFKM12'] if i % 7 else (['KM15', 'AFKM12', 'KM09a'] if i % 2 else ['AFKM12', 'KM15', 'KM09a'])
        name = ref_plain = fth = None
        for nm in order:
            fth = fresh_theory(fac, nm)
            r = call_real(fth, deep_point(P0), dict(kind='predict', kw={}))
            if not r.startswith('EXC:'):
                name, ref_plain = nm, r
                break
        if name is None:
            rep.hist('shared-containers.theory', 'none can describe dataset %s' % k)
            continue
        th = fac[name][0]
        par0 = params_tokens(th.parameters)
        rep.hist('shared-containers.theory', name)
        rep.hist('shared-containers.newunits', ','.join(sorted(p.get('newunits', {}))) or '-')
        plan = [('orig', 'p'), ('orig', 'q'), ('plain', 'p'), ('orig', 'p'), ('plain', 'q')]
        done = []
        for kind, who in plan:
            tgt, T0 = (p, P0) if who == 'p' else (q, Q0)
            if tgt is None:
                continue
            kw = {'orig_conventions': True} if kind == 'orig' else {}
            res = call_real(th, tgt, dict(kind='predict', kw=kw))
            if kind == 'plain' and who == 'p':
                ref = ref_plain
            else:
                # reference: the fresh theory of this dataset (it has seen only deep copies), thorough tier: a new one per call
                ref = call_real(fth if quick else fresh_theory(fac, name), deep_point(T0), dict(kind='predict', kw=kw))
            done.append('predict(%s%s)' % (who, ', orig_conventions=True' if kind == 'orig' else ''))
            rep.case('shared-containers', (k, ip, iq, len(done)), sample=dict(dataset=k, theory=name, p=ip, q=iq, calls=list(done), shared=shared_attrs) if i < 2 and len(done) == 2 else None)
            base = dict(theory=name, dataset=k, p_index=ip, q_index=iq, calls=list(done), shared_attributes=shared_attrs)
            bad = None
            for label, now, before in (('p', pt_tokens(p), tp0), ('q', pt_tokens(q) if q is not None else None, tq0),
                                       ('dataset attributes', ds_tokens(ds), td0)):
                if before is not None and sorted(now) != sorted(before):
                    bad = (label, sorted(set(now) ^ set(before)))
                    break
            if bad:
                detail = {a: (deep_canon(P0.get(a))[:120], deep_canon(p.get(a))[:120]) for a in shared_attrs if deep_canon(P0.get(a)) != deep_canon(p.get(a))}
                rep.violation('shared-container/%s/%s' % (kind, bad[0].split(' ')[0]),
                              'bundled dataset %s, points p = #%d and q = #%s (they hold the same %s objects): after %s on shared theory %s the state of %s '
                              'differs BY VALUE from the snapshot taken before the first call: %s %s' % (
                                  k, ip, iq, '/'.join(shared_attrs), ' ; '.join(done), name, bad[0], bad[1][:6], detail),
                              dict(base, changed=bad[1], nested=str(detail)))
                restore_point(p, P0)
                if q is not None:
                    restore_point(q, Q0)
                break
            if params_tokens(th.parameters) != par0:
                rep.violation('shared-container/params', 'theory parameters of %s changed by %s' % (name, done), base)
                break
            if not same_result(res, ref):
                rep.violation('shared-container/value/%s' % kind, 'bundled dataset %s: %s on shared theory %s (after %s) returns %s, the same call '
                              'on a fresh theory and deep copies of the points returns %s' % (k, done[-1], name, done[:-1], res[:60], ref[:60]),
                              dict(base, shared=res, fresh=ref))
                break


def special_values_stream(rep, rng, quick):
    """Consecutive evaluations on ONE theory object that differ in exactly one input - t, Q2 or one parameter - taking
    small integer values: a, b, a (, b) with nothing in between, each compared bit for bit with the same evaluation on a
    fresh object.  The pairs include the numbers that are different but hash alike in CPython (hash(-1) == hash(-2),
    also as float and numpy scalar), integer versus float spelling of one value, 0 / 1 / 2: whatever a memo might be keyed by."""
    import gepard as g
    import ref_eval
    fac = fresh_factories()
    # different numbers with the same hash() among the small integers (CPython: -1 and -2), found, not assumed
    small = [v for n in range(-4, 5) for v in (n, float(n))]
    coll = sorted({(a, b) for a in small for b in small if a != b and hash(a) == hash(b) and a > b}, key=repr)
    rep.coverage['hash_colliding_small_numbers'] = [list(c) for c in coll]
    neg_pairs = [(float(a), float(b)) for a, b in coll if a <= 0 and b <= 0 and isinstance(a, int) and isinstance(b, int)] or [(-1.0, -2.0)]
    par_pairs = neg_pairs + [(int(neg_pairs[0][0]), int(neg_pairs[0][1]))]
    mbspec = dict(bases=['PWNormGPD', 'MellinBarnesCFF', 'MellinBarnesTFF', 'DIS', 'BMK', 'DVMP'], kwargs=dict(p=0),
                  params={'ns': 0.15, 'al0s': 1.1, 'alps': 0.15, 'ms2': 1.0, 'secs': 0.2, 'al0g': 1.2, 'alpg': 0.15, 'mg2': 0.7,
                          'secg': -0.5, 'this': 0.0, 'thig': 0.0, 'kaps': 0.7, 'Ens': 0.25, 'Esecs': 0.1})
    xB = rng.choice([0.01, 0.05, 0.1])
    kin = dict(xB=xB, t=-0.3, Q2=4.0)
    # between them these depend on every parameter of the shipped models (H: sea + valence; E: sea + subtraction constant; Ht; pion pole)
    cffs = [(c, kin) for c in (('ImH', 'ReE', 'ReHt', 'ReEt') if quick else ('ImH', 'ReH', 'ImE', 'ReE', 'ImHt', 'ReHt', 'ImEt', 'ReEt'))]
    targets = [
        # (label, shared object, maker of a fresh equal object, groups of (entry, point kwargs))
        ('KM15', fac['KM15'][0], lambda: fresh_theory(fac, 'KM15'), [cffs]),
        ('MB-adhoc', ref_eval.build(mbspec), lambda: ref_eval.build(mbspec),
         [cffs[:2] if quick else cffs[:4], [('XGAMMA', dict(W=82., Q2=4.0, t=-0.3, process='gammastarp2rho0p')), ('XGAMMA', dict(W=82., Q2=4.0, t=-0.3, process='gammastarp2gammap'))],
          # (x-space GPDs recompute the evolution on every call - 60 ms each: thorough tier, and one t-chain in quick)
          [('DISF2', dict(xB=xB, Q2=4.0))] + ([] if quick else [('Hx', dict(x=xB, eta=0.0, t=-0.3, Q2=4.0)), ('Ex', dict(x=xB, eta=xB, t=-0.3, Q2=4.0))])]),
        ('KM09a', fac['KM09a'][0], lambda: fresh_theory(fac, 'KM09a'), [cffs]),
    ]

    def evaluate(th, entry, kwpt, par, mode):
        """one evaluation; par = None or (name, value); mode 'override' = predict(parameters=...), 'assign' = th.parameters[...] = v"""
        pt = g.DataPoint(**kwpt)
        if par is None or mode == 'override':
            kw = {'observable': entry}
            if par is not None:
                kw['parameters'] = {par[0]: par[1]}
            return call_real(th, pt, dict(kind='predict', kw=kw))
        old = th.parameters[par[0]]
        th.parameters[par[0]] = par[1]
        try:
            return call_real(th, pt, dict(kind='method', name=entry))
        finally:
            th.parameters[par[0]] = old

    def fresh_value(mk, entry, kwpt, par):
        f = mk()
        if par is not None:
            f.parameters[par[0]] = par[1]
        return call_real(f, g.DataPoint(**kwpt), dict(kind='method', name=entry))

    nfresh = 0
    for label, th, mk, groups in targets:
        p0 = dict(th.parameters)
        allent = [e for grp in groups for e in grp]
        slots = []
        # kinematic slots: all entries; parameter slots: quick - the group of entries rotates with the parameter, thorough - all
        for a, b in neg_pairs + [(-1, -2.0), (0.0, -1.0)]:
            slots.append((allent, 't', None, (a, b)))
        if quick and label == 'MB-adhoc':
            slots.append(([('Hx', dict(x=xB, eta=0.0, t=-0.3, Q2=4.0))], 't', None, neg_pairs[0]))
        slots.append((allent, 'Q2', None, (1.0, 2.0)))
        slots.append((allent, 'Q2', None, (2, 2.0)))         # one value, two spellings
        pars = [k for k, v in p0.items() if isinstance(v, (int, float)) and not isinstance(v, bool)]
        for ik, k in enumerate(pars):
            ent = allent if not quick else groups[ik % len(groups)]
            for pr in (par_pairs if not quick else [par_pairs[ik % len(par_pairs)]]):
                slots.append((ent, 'par', k, pr))
        for si, (ent, slot, pname, (a, b)) in enumerate(slots):
            mode = 'override' if si % 2 == 0 else 'assign'
            ent = [(e, kw) for e, kw in ent if slot == 'par' or slot in kw]
            refs = {}
            chain = [a, b, a] if quick else [a, b, a, b]
            got = []
            for v in chain:
                par = (pname, v) if slot == 'par' else None
                kws = [dict(kw) if slot == 'par' else dict(kw, **{slot: v}) for e, kw in ent]
                got.append([evaluate(th, e, kw_v, par, mode) for (e, _), kw_v in zip(ent, kws)])
                key = (repr(v), type(v).__name__)
                if key not in refs:
                    if quick:
                        f = mk()        # one fresh object per value, the entries in the same order
                        if par is not None:
                            f.parameters[par[0]] = par[1]
                        refs[key] = [call_real(f, g.DataPoint(**kw_v), dict(kind='method', name=e)) for (e, _), kw_v in zip(ent, kws)]
                        nfresh += 1
                    else:
                        refs[key] = [fresh_value(mk, e, kw_v, par) for (e, _), kw_v in zip(ent, kws)]
                        nfresh += len(ent)
            want = [refs[(repr(v), type(v).__name__)] for v in chain]
            sens = want[0] != want[1]
            rep.case('special-values', (label, slot, pname, repr(a), repr(b)), nontrivial=True,
                     sample=dict(theory=label, entries=[e for e, _ in ent], slot=pname or slot, values=[repr(v) for v in chain],
                                 results=[[r[:18] for r in rr] for rr in got[:2]]) if si in (0, len(slots) - 1) else None)
            rep.hist('special-values.slot', '%s/%s%s' % (label, slot, '' if sens else ' (results do not depend on it)'))
            if params_tokens(th.parameters) != params_tokens(p0):
                rep.violation('special-values/params/' + label, 'parameters of the shared theory %s changed by evaluations with %s=%r/%r (%s)' % (
                    label, pname or slot, a, b, mode), dict(theory=label, slot=pname or slot, values=[repr(v) for v in chain], mode=mode))
                th.parameters.clear()
                th.parameters.update(p0)
            bad = [(step, j) for step in range(len(chain)) for j in range(len(ent)) if not same_result(got[step][j], want[step][j])]
            if bad:
                step, j = bad[0]
                e, kwpt = ent[j]
                r, w = got[step][j], want[step][j]
                how = ('predict(parameters=...)' if mode == 'override' else 'parameters[...] = v') if slot == 'par' else 'points built with that value'
                rep.violation('special-values/%s/%s' % (label, 'parameter' if slot == 'par' else slot),
                              '%s: %s evaluated one after another on one object with %s = %s (%s): in round #%d (%s = %r) %s at %s returns %s, '
                              'a fresh object returns %s; the round before had %s = %r' % (
                                  label, [x for x, _ in ent], pname or slot, [repr(v) for v in chain], how, step + 1, pname or slot, chain[step],
                                  e, kwpt, r[:60], w[:60], pname or slot, chain[step - 1] if step else None),
                              dict(theory=label, entries=[x for x, _ in ent], entry=e, point=kwpt, slot=pname or slot, values=[repr(v) for v in chain],
                                   mode=mode, round=step, shared=r, fresh=w))
    rep.coverage['special_values_fresh_evaluations'] = nfresh


def run(rep):
    import gepard as g
    from props.C17 import pt_fingerprint
    rng = rep.rng
    ok, why = common.lean_side(rep, 'C12')
    quick = rep.tier == 'quick'
    from gepard import fits
    fac = fresh_factories()
    names = ['KM09a', 'KM09b', 'KM15', 'KM10b'] + ([] if quick else ['AFKM12'])
    # dataset fingerprints before anything is evaluated (points by value, and the attributes of the datasets themselves)
    ds_before = {k: [pt_fingerprint(p) for p in g.dset[k]] for k in g.dset}
    dsattr_before = {k: ds_tokens(g.dset[k]) for k in g.dset}
    # uncertainty=True needs parameters_errors (and no covariance) on the shared theories: what they carried before is put back at the end
    MISSING = object()
    saved_cfg = {n: {a: (copy.deepcopy(getattr(fac[n][0], a)) if hasattr(fac[n][0], a) else MISSING)
                     for a in ('parameters_errors', 'covariance')} for n in names}
    try:
        return _run(rep, g, rng, ok, why, quick, fits, fac, names, ds_before, dsattr_before, pt_fingerprint)
    finally:
        for n, d in saved_cfg.items():
            for a, v in d.items():
                if v is MISSING:
                    if a in getattr(fac[n][0], '__dict__', {}):
                        delattr(fac[n][0], a)
                else:
                    setattr(fac[n][0], a, v)


def _run(rep, g, rng, ok, why, quick, fits, fac, names, ds_before, dsattr_before, pt_fingerprint):
    nhist = 45 if quick else 400
    lines, hist = [], []
    for h in range(nhist):
        name = rng.choice(names)
        th, cls, ckw = fac[name]
        pool = [p for p in getattr(fits, 'pts_' + name) if p.get('err')]
        pt = rng.choice(pool)
        # configuration for uncertainty=True: errors for the free parameters (same on fresh theories)
        free = th.free_parameters()
        perr = {p: 0.01 * abs(th.parameters[p]) + 1e-3 for p in free}
        th.parameters_errors = dict(perr)
        if hasattr(th, 'covariance'):
            th.covariance = {}
        p0 = dict(th.parameters)
        pt0 = deep_point(pt)                 # shares nothing mutable with the bundled point
        pt0_tokens = pt_tokens(pt)           # by value, BEFORE the first call
        qid = {}
        ops = []
        for _ in range(rng.randint(3, 8 if quick else 14)):
            r = rng.random()
            target = pt
            if r < 0.2:
                op = dict(kind='predict', kw={})
            elif r < 0.32:
                op = dict(kind='predict', kw={'observable': rng.choice(['ImH', 'ReH', 'ImHt', 'ReE', 'XS' if 'phi' in pt else 'ImE'])})
            elif r < 0.5:
                keys = [k for k in th.parameters if k not in DERIVED and isinstance(th.parameters[k], float)]
                ov = {k: th.parameters[k] * (1 + 0.3 * rng.random()) + 0.01 for k in rng.sample(keys, min(2, len(keys)))}
                if rng.random() < 0.3:
                    ov['verif_new_key'] = 1.25
                op = dict(kind='predict', kw={'parameters': ov})
                if rng.random() < 0.4:
                    op['kw']['observable'] = rng.choice(['nope_observable', 'ImH'])
            elif r < 0.58 and len(free) <= 6:
                op = dict(kind='predict', kw={'uncertainty': True, 'observable': rng.choice(['ImH', 'ReH'])})
            elif r < 0.66:
                op = dict(kind='predict', kw={'orig_conventions': True})
            elif r < 0.74:
                op = dict(kind='predict', kw={'observable': 'no_such_observable'})
            elif r < 0.82:
                op = dict(kind='method', name=rng.choice(['XSintphi', 'XGAMMA', 'ImH', 'XUU', 'XLU']))
            elif r < 0.9:
                op = dict(kind='chisq', pts=rng.sample(pool, min(3, len(pool))), kw={'asym': rng.random() < 0.5})
            elif r < 0.95:
                # missing kinematics: evaluate on a shared point that lacks t
                op = dict(kind='predict', kw={'observable': rng.choice(['XGAMMA', 'ImH'])}, strip='t')
            else:
                # a t-integrated observable whose integrand cannot be evaluated (no xB / W on the point, or a
                # process the theory has no formula for): the call fails inside the integration loop
                op = dict(kind='predict', kw={'observable': 'XGAMMA'}, strip=rng.choice(['xBW', 'dvmp']))
            ops.append(op)
        # ---- run on the shared objects ----
        real = []
        for op in ops:
            if op.get('strip'):
                tgt = deep_point(pt0)
                for k in ('t', 'tm'):
                    tgt.pop(k, None)
                if op['strip'] == 'xBW':
                    for k in ('xB', 'W', 'xi'):
                        tgt.pop(k, None)
                elif op['strip'] == 'dvmp':
                    tgt['process'] = 'gammastarp2rho0p'
                op['target'] = tgt
                op['target0'] = deep_point(tgt)
            else:
                op['target'] = pt
                op['target0'] = pt0
            if op['kind'] == 'chisq':
                op['pts0'] = [deep_point(q) for q in op['pts']]
                others0 = [pt_tokens(q) for q in op['pts']]
            res = call_real(th, op['target'], op)
            real.append((res, params_tokens(th.parameters), pt_tokens(op['target'])))
            if op['kind'] == 'chisq':
                for q, q0, t0 in zip(op['pts'], op['pts0'], others0):
                    if sorted(pt_tokens(q)) != sorted(t0):
                        changed = sorted(set(pt_tokens(q)) ^ set(t0))
                        rep.violation('point/chisq-points', 'a bundled point of dataset %s handed to chisq (theory %s) was changed by it: %s' % (
                            q.get('id'), name, changed[:6]), dict(theory=name, dataset=q.get('id'), changed=changed))
                        restore_point(q, q0)
            rep.hist('op', op['kind'] + ':' + ','.join(sorted(op.get('kw', {}))) + (op.get('name', '')) + ('/exc' if res.startswith('EXC') else ''))
        # ---- the specification: same call, fresh theory, fresh copy of the point ----
        spec = []
        for op in ops:
            fth = cls(**ckw)
            fth.parameters.update(p0)
            fth.parameters_errors = dict(perr)
            if hasattr(th, 'covariance'):
                fth.covariance = {}
            fop = dict(op)
            if op['kind'] == 'chisq':
                fop['pts'] = [deep_point(q) for q in op['pts0']]
            spec.append(call_real(fth, deep_point(op['target0']), fop))
        hist.append(dict(theory=name, dataset=pt.get('id'), ops=ops, real=real, spec=spec,
                         p0=params_tokens(p0), pt0=pt0_tokens))
        if sorted(pt_tokens(pt)) != sorted(pt0_tokens):
            restore_point(pt, pt0)        # (reported below) repair the shared point for the rest of the run
        # model line (the point section describes the shared point; stripped targets are separate points,
        # modelled as their own one-call histories below)
        calls = []
        for op in ops:
            q = qid.setdefault(op['target0'].get('Q2'), len(qid))
            obsname = op.get('name') or op.get('kw', {}).get('observable') or (op['kind'])
            use = 'copy'
            ov = op.get('kw', {}).get('parameters')
            ovr = 'none' if ov is None else (','.join('%s=%s' % (k, dig(v)) for k, v in ov.items() if k not in DERIVED) or '-')
            calls.append('%s %d %s %s' % (obsname, q, use, ovr))
        lines.append('c12.run P %s T %s K t FTn O %s' % (' '.join(params_tokens(p0)), ' '.join(pt0_tokens), ' ; '.join(calls)))
    try:
        outs = common.run_driver(lines)
    except common.ModelUnavailable as ex:
        outs = [None] * len(lines)
        rep.violation('model-unavailable', 'the Lean model driver of C12 could not be run (%s): parameters / points are compared with their '
                      'snapshots and values with fresh objects only' % str(ex)[:300], dict(reason=str(ex)[:300]), found_input=False)
    for line, H, o in zip(lines, hist, outs):
        rep.case('history', line, sample=dict(theory=H['theory'], dataset=H['dataset'],
                                              ops=[(op['kind'], sorted(op.get('kw', {})), op.get('name')) for op in H['ops']],
                                              results=[r[0][:20] for r in H['real']]))
        if o == 'bad-op':
            rep.violation('harness/bad-op', 'driver rejected line', dict(line=line[:500]), found_input=False)
            o = None          # the model-independent clauses are still evaluated
        segs = o.split(' ;; ') if o is not None else [None] * len(H['ops'])
        for i, (op, (res, ptoks, pttoks), sp, seg) in enumerate(zip(H['ops'], H['real'], H['spec'], segs)):
            mkey, mparams, mpt = seg.split(' ') if seg is not None else (None, None, None)
            opdesc = (op['kind'], {k: (v if k != 'parameters' else sorted(v)) for k, v in op.get('kw', {}).items()}, op.get('name'))
            prev = [(p['kind'], sorted(p.get('kw', {})), p.get('name')) for p in H['ops'][:i]]
            base = dict(theory=H['theory'], dataset=H['dataset'], op=str(opdesc), previous_ops=str(prev))
            # (1) parameters unchanged — model says so; property says so
            if ptoks != H['p0']:
                changed = sorted(set(ptoks) ^ set(H['p0']))
                rep.violation('params/%s/%s' % (op['kind'], ','.join(sorted(op.get('kw', {}))) + ('/exc' if res.startswith('EXC') else '')),
                              'theory parameters changed by %s on shared theory %s: %s' % (opdesc, H['theory'], changed[:6]),
                              dict(base, changed=changed))
                break
            if mparams is not None and ','.join(ptoks) != mparams and not (mparams == '-' and not ptoks):
                rep.violation('model/params', 'model params differ from code', dict(base, model=mparams[:300]), found_input=False)
                break
            # (2) point unchanged
            if not op.get('strip'):
                if sorted(pttoks) != sorted(H['pt0']):
                    changed = sorted(set(pttoks) ^ set(H['pt0']))
                    rep.violation('point/%s%s' % (op.get('name') or op['kind'], '/exc' if res.startswith('EXC') else ''),
                                  'DataPoint changed by %s (theory %s): %s' % (opdesc, H['theory'], changed[:6]),
                                  dict(base, changed=changed))
                    break
                if mpt is not None and sorted(mpt.split(',')) != sorted(H['pt0']):
                    rep.violation('model/point', 'model point differs from code', dict(base), found_input=False)
                    break
            else:
                if sorted(pttoks) != sorted(pt_tokens(op['target0'])):
                    changed = sorted(set(pttoks) ^ set(pt_tokens(op['target0'])))
                    rep.violation('point/missing-kinematics/%s' % (op.get('kw', {}).get('observable')),
                                  'DataPoint without t changed by failing %s: %s' % (opdesc, changed[:6]), dict(base, changed=changed))
                    break
            # (3) value = cache-free specification on fresh objects, bit for bit
            if res != sp:
                rep.violation('value/%s/%s' % (op['kind'], ','.join(sorted(op.get('kw', {}))) or op.get('name', '')),
                              '%s on shared theory %s after %d earlier calls returns %s; the same call on a freshly '
                              'constructed theory and fresh point copy returns %s' % (opdesc, H['theory'], i, res[:80], sp[:80]),
                              dict(base, shared=res, fresh=sp))
                break
    # ---- configuration stream: differently configured theories of the SAME classes evaluated at common
    # scales in one session (per-theory caches keyed by Q2 only), against a fresh interpreter that evaluates
    # every job on fresh objects in the reverse order ----
    import time
    secs = rep.coverage.setdefault('stream_seconds', {})
    t0 = time.time()
    config_stream(rep, rng, quick)
    secs['config'] = round(time.time() - t0, 1)
    # ---- points carrying FTn = 0 / unusual harmonic values through XSintphi and friends ----
    t0 = time.time()
    ftn_stream(rep, rng, quick)
    secs['ftn'] = round(time.time() - t0, 1)
    # ---- sibling points of one bundled dataset (they share their units / newunits / errtypes containers) ----
    t0 = time.time()
    shared_containers_stream(rep, rng, quick)
    secs['shared-containers'] = round(time.time() - t0, 1)
    # ---- consecutive evaluations differing in one input that takes small integer values (-1 / -2 hash alike in CPython) ----
    t0 = time.time()
    special_values_stream(rep, rng, quick)
    secs['special-values'] = round(time.time() - t0, 1)
    # bundled datasets unchanged
    for k in g.dset:
        now = [pt_fingerprint(p) for p in g.dset[k]]
        if now != ds_before[k]:
            idx = [i for i, (a, b) in enumerate(zip(now, ds_before[k])) if a != b][:3]
            rep.violation('dataset/%s' % k, 'bundled dataset %s changed by evaluations (points %s)' % (k, idx), dict(dataset=k, points=idx))
        if ds_tokens(g.dset[k]) != dsattr_before[k]:
            changed = sorted(set(ds_tokens(g.dset[k])) ^ set(dsattr_before[k]))
            rep.violation('dataset-attributes/%s' % k, 'attributes of bundled dataset %s changed by evaluations: %s' % (k, changed[:6]),
                          dict(dataset=k, changed=changed))
    rep.case('datasets', 'all', sample=dict(datasets=len(g.dset)))
    if not ok and not rep.violations:
        rep.violation('lean', 'Lean side of C12 no longer checks: ' + why, dict(reason=why), found_input=False)
    rep.assumptions += ['parameters defined as functions of others (ng, Eng, kapg) are exempt, as the property says',
                        'an observable is a function of (configuration, parameters, kinematics): absence of hidden state '
                        'inside numpy/scipy and unmodelled code paths is what the bit-identical comparison with fresh objects observes']
    return rep.finish(level='proof', checker_cmd='lake build Props.C12; #print axioms; gepdriver c12.run vs shared gepard.fits theories',
                      trusted=['Lean 4.33 kernel', 'Model/Predict.lean', 'harness/props/C12.py'])


def replay(path):
    print(open(path).read()[:3000])
    return 0

"""C18 — prediction uncertainties are the linear propagation of the fit covariance.

Lean: Props/C18.lean (ℝ) over Scalar/Uncert.lean.in — the returned pair is (f(θ), √(dᵀCd)) resp. the
diagonal fallback; for observables that are affine/quadratic along the coordinate lines the central
differences are the exact gradient, hence exact linear propagation; remainder formula otherwise.
Correspondence: Theory.predict(pt, uncertainty=True, observable=…) on fresh theories with synthetic
positive-definite covariances versus the Float model fed with independently evaluated up/down values;
plus an oracle stream (independent Richardson gradient) for the linear-propagation claim itself and
the restoration of the parameters; plus an oracle stream "options" for the keyword options of the same entry point
(orig_conventions=True, observable=…, parameters={…}) on points of every convention class and hand-made DataPoints.
"""
import math

import numpy as np

import common
import fixtures
from common import f2hex, hex2f, relerr


def make_theory(rng, kind):
    from gepard import fits
    if kind == 'KM09':
        th = fits.KM09()
        th.parameters.update(rng.choice([fits.par_KM09a, fits.par_KM09b]))
        cand = ['Nv', 'rv', 'bv', 'C', 'mC2', 'mv2', 'trv', 'tbv', 'NS', 'bS']
        cand = [c for c in cand if c in th.parameters]
        pool = [p for p in fits.GLOpoints]
        obs = ['ImH', 'ReH', 'ImHt', 'ReHt', None, None]
    else:
        th = fixtures.adhoc('KellyEFF', rng.choice(['BMK', 'BM10', 'hotfixedBMK']),
                            {'ImH': 8.0, 'ReH': -3.0, 'ImHt': 2.0, 'ReE': 1.5, 'ImE': 0.7})
        cand = ['ImH', 'ReH', 'ImHt', 'ReHt', 'ImE', 'ReE']
        pool = [p for p in fixtures.dvcs_points() if p.get('observable') in ('ALU', 'AC', 'XUU', 'XLU', 'BSA', 'TSA', 'BTSA')
                and 't' in p and ('phi' in p or 'FTn' in p) and hasattr(th, p.observable)]
        obs = [None, None, None, 'XUU' , 'ImH']
    return th, cand, pool, obs


def fix_all(rep, th):
    """every parameter fixed: through the package's private helper when it exists, and always through the public
    dictionary parameters_fixed (which is what free_parameters() reads)"""
    f = common.private(rep, th, '_fix_parameters', 'parameters are fixed through the public dictionary parameters_fixed instead')
    if f is not None:
        f('ALL')
    for k in th.parameters:
        th.parameters_fixed[k] = True


def release(rep, th, free):
    f = common.private(rep, th, '_release_parameters', 'parameters are released through the public dictionary parameters_fixed instead')
    if f is not None:
        f(*free)
    else:
        for k in free:
            th.parameters_fixed[k] = False


def pd_cov(rng, pars, errs):
    """a positive-definite covariance with the given standard deviations: {(p1, p2): value}"""
    A = np.array([[rng.gauss(0, 1) for _ in pars] for _ in pars])
    S = A @ A.T + 0.3 * np.eye(len(pars))
    d = np.sqrt(np.diag(S))
    e = np.array([errs[p] for p in pars])
    C = S / np.outer(d, d) * np.outer(e, e)
    return {(p1, p2): float(C[i, j]) for i, p1 in enumerate(pars) for j, p2 in enumerate(pars)}


class Shadow:
    """what the harness itself did to one theory object (never read back from the object): the parameter errors and the
    covariance it was given, by assignment, by in-place modification of the dictionary it carries, or by a fitter (then
    taken from the minimiser, not from the theory)"""
    def __init__(self, th, kind, cand, pool, obslist, name):
        self.th, self.kind, self.cand, self.pool, self.obslist, self.name = th, kind, cand, pool, obslist, name
        self.errs, self.cov, self.history = {}, None, []


def state_stream(rep, rng, quick):
    """Oracle stream (closed formula on independently evaluated up/down values; no model): the property along HISTORIES.

    The uncertainty returned NOW is sqrt(d^T C d) with the covariance the theory object carries NOW (the quadrature sum
    over its parameter errors when it carries none), d_p = (f(p + e_p/2) - f(p - e_p/2)) / e_p, whatever happened before:
    (1) the covariance dictionary / the errors of the same object modified IN PLACE between two propagations (rescaled,
    single entries changed, updated from another matrix, entries of a further parameter added, a parameter fixed and its
    entries removed, emptied); (2) SEVERAL theory objects in one process, some with errors only, some given a covariance
    by assignment, some by a real MinuitFitter (hesse/fit + covsync): what one object gets must never show in another.
    The expected value is computed from the harness's own record of what each object was given (for a fitter: from the
    minimiser), with evaluations of the observable on a fresh parameter dictionary."""
    import gepard as g
    nsc = 14 if quick else 300
    worst = [0.0]

    def new_shadow(kind, name):
        th, cand, pool, obslist = make_theory(rng, kind)
        fix_all(rep, th)
        return Shadow(th, kind, cand, pool, obslist, name)

    def choose_obs(sh, pt):
        obs = rng.choice(sh.obslist)
        if obs is None or (sh.kind == 'adhoc' and obs == 'XUU' and 'phi' not in pt and 'FTn' not in pt):
            obs = pt.observable
        return obs

    def check(sh, scenario, step):
        """one propagation on sh.th, compared with the formula for the state recorded in the shadow"""
        th = sh.th
        pt = rng.choice(sh.pool)
        obs = choose_obs(sh, pt)
        pars = th.free_parameters()
        base = dict(th.parameters)
        fun = getattr(th, obs)

        def f_at(shift):
            saved = dict(th.parameters)
            try:
                th.parameters.clear(); th.parameters.update(base)
                for k, v in shift.items():
                    th.parameters[k] = base[k] + v
                return float(fun(pt))
            finally:
                th.parameters.clear(); th.parameters.update(saved)
        replay = dict(scenario=scenario, step=step, object=sh.name, theory=sh.kind, observable=obs, dataset=pt.get('id'),
                      point={k: pt.get(k) for k in ('xB', 'Q2', 't', 'phi', 'FTn') if k in pt}, free=pars,
                      history=list(sh.history), errors={p: sh.errs.get(p) for p in pars},
                      covariance=None if sh.cov is None else {'%s,%s' % k: v for k, v in sh.cov.items()})
        key = 'state/%s/%s' % (scenario, step.split(':')[0])
        try:
            f0 = f_at({})
            d = np.array([(f_at({p: sh.errs[p] / 2.}) - f_at({p: -sh.errs[p] / 2.})) / sh.errs[p] for p in pars])
            d4 = np.array([(f_at({p: sh.errs[p] / 4.}) - f_at({p: -sh.errs[p] / 4.})) / (sh.errs[p] / 2.) for p in pars])
            plain = float(th.predict(pt, observable=obs))
        except Exception:
            rep.case('state', (scenario, step, sh.name, 'observable raises'), nontrivial=False)
            return
        if sh.cov:
            Cm = np.array([[sh.cov[(a, b)] for b in pars] for a in pars])
            want = math.sqrt(max(float(d @ Cm @ d), 0.0))
            gR = (4 * d4 - d) / 3
            wantR = math.sqrt(max(float(gR @ Cm @ gR), 0.0))
        else:
            want = math.sqrt(sum((di * sh.errs[p]) ** 2 for di, p in zip(d, pars)))
            wantR = math.sqrt(sum((gi * sh.errs[p]) ** 2 for gi, p in zip((4 * d4 - d) / 3, pars)))
        curv = max([abs(a - b) / (abs(a) + abs(b) + 1e-300) for a, b in zip(d, d4)] or [0.0])
        if not (math.isfinite(want) and math.isfinite(f0) and math.isfinite(wantR)):
            rep.case('state', (scenario, step, sh.name, 'observable not finite'), nontrivial=False)
            return
        rep.case('state', (scenario, step, sh.name, obs, tuple(pars), len(sh.history)),
                 sample=dict(scenario=scenario, step=step, object=sh.name, observable=obs, free=pars, history=list(sh.history)))
        rep.hist('state.step', '%s/%s' % (scenario, step.split(':')[0]))
        try:
            r = th.predict(pt, uncertainty=True, observable=obs)
            val, unc = float(r[0]), float(r[1])
        except Exception as e:
            rep.violation(key + '/exception', 'object %s (%s) after %s: predict(uncertainty=True, observable=%s) raised %s(%s) although the '
                          'observable evaluates and the formula gives %r' % (sh.name, sh.kind, sh.history, obs, type(e).__name__, str(e)[:100], want), replay)
            th.parameters.clear(); th.parameters.update(base)
            return
        if dict(th.parameters) != base:
            rep.violation(key + '/params-not-restored', 'object %s after %s: predict(uncertainty=True) left the parameters changed' % (sh.name, sh.history), replay)
            th.parameters.clear(); th.parameters.update(base)
        if f2hex(val) != f2hex(plain):
            rep.violation(key + '/central', 'object %s after %s: central value %r differs from the plain prediction %r' % (sh.name, sh.history, val, plain), replay)
        err = relerr(unc, want, 1e-12 * abs(val))
        worst[0] = max(worst[0], err)
        if err > 1e-6:
            # a concrete failing input of the PROPERTY (gradient, not this finite-difference scheme): beyond the curvature allowance
            # of the independent Richardson gradient, where the observable is locally linear
            found = curv < 5e-3 and relerr(unc, wantR, 1e-12 * abs(val)) > 2e-2
            rep.violation(key, 'object %s (%s), history %s: uncertainty of %s with free=%s is %r, but sqrt(d^T C d) with the %s this '
                          'object carries now is %r (independent Richardson gradient: %r, relative curvature %.1e)' % (
                              sh.name, sh.kind, sh.history, obs, pars, unc, 'covariance' if sh.cov else 'parameter errors (no covariance)',
                              want, wantR, curv), dict(replay, code=unc, formula=want, richardson=wantR), found_input=found)

    def start(sh, nfree=None, rel=None):
        th = sh.th
        free = rng.sample(sh.cand, nfree or rng.randint(2, min(4, len(sh.cand))))
        release(rep, th, free)
        pars = th.free_parameters()
        rel = rel or rng.choice([1e-3, 3e-3])
        sh.errs = {p: rel * (abs(th.parameters[p]) + 0.1) * rng.uniform(0.5, 2) for p in pars}
        th.parameters_errors = dict(sh.errs)
        sh.history.append('errors assigned (free %s)' % ','.join(pars))
        return pars

    def assign_cov(sh, scale=1.0):
        pars = sh.th.free_parameters()
        sh.cov = pd_cov(rng, pars, {p: scale * sh.errs[p] for p in pars})
        sh.th.covariance = dict(sh.cov)
        sh.history.append('covariance assigned')

    def fitter_cov(sh):
        """covariance and errors through a real MinuitFitter; the shadow takes them from the minimiser.  False when no fit was possible"""
        th = sh.th
        if sh.kind == 'KM09':
            from gepard import fits
            pts = rng.sample(list(fits.GLOpoints), 6)
            how = 'hesse'
        else:
            cand = [p for p in sh.pool if p.get('observable') in ('ALU', 'AC', 'XUU', 'BSA') and 'phi' in p and p.get('err')]
            pts = rng.sample(cand, 8)
            how = rng.choice(['hesse', 'fit'])
        try:
            fit = g.MinuitFitter(g.DataSet(pts), th)
            if how == 'fit':
                fit.fit()
            else:
                fit.minuit.hesse()
                fit.covsync()
            pars = th.free_parameters()
            mc = fit.minuit.covariance
            cov = {(a, b): float(mc[a, b]) for a in pars for b in pars}
            errs = {k: float(v) for k, v in fit.minuit.errors.to_dict().items()}
        except Exception as e:
            rep.hist('state.fitter', 'no covariance (%s)' % type(e).__name__)
            cov = None
        if cov is not None and not (all(math.isfinite(v) for v in cov.values()) and all(cov[(a, a)] > 0 and errs[a] > 0 for a in pars)):
            rep.hist('state.fitter', 'covariance not usable')
            cov = None
        if cov is None:
            # the synchronisation may have replaced the errors and the covariance of the object: put it into a state the
            # harness knows (its recorded errors, no covariance) by plain assignment
            th.parameters_errors = dict(sh.errs)
            th.covariance = {}
            sh.cov = None
            sh.history.append('a MinuitFitter without usable covariance was tried; errors re-assigned, covariance = {} assigned')
            return False
        sh.cov, sh.errs = cov, errs
        sh.history.append('covariance from MinuitFitter (%s + covsync, %d points)' % (how, len(pts)))
        rep.hist('state.fitter', how)
        return True

    for c in range(nsc):
        scenario = ('inplace', 'objects')[c % 2]
        kind = rng.choice(['KM09', 'adhoc', 'adhoc'])
        if scenario == 'inplace':
            sh = new_shadow(kind, 'A')
            start(sh)
            assign_cov(sh)
            check(sh, scenario, 'first')
            for k in range(rng.randint(3, 5)):
                th = sh.th
                pars = th.free_parameters()
                op = rng.choice(['rescale', 'entry', 'update', 'extra', 'remove', 'clear+errors', 'errors'])
                if not sh.cov and op in ('rescale', 'entry', 'extra', 'remove'):
                    op = 'update'
                if op == 'rescale':
                    fac = rng.choice([4.0, 0.25, 9.0])
                    for kk in th.covariance:
                        th.covariance[kk] *= fac
                    sh.cov = {kk: v * fac for kk, v in sh.cov.items()}
                    sh.history.append('every entry of the covariance dictionary multiplied in place by %g' % fac)
                elif op == 'entry':
                    # off-diagonal entries damped in place (stays positive definite), one variance enlarged
                    q = rng.choice(pars)
                    for (a, b) in list(th.covariance):
                        if a != b:
                            th.covariance[(a, b)] *= 0.3
                    th.covariance[(q, q)] *= 5.0
                    sh.cov = {(a, b): v * (0.3 if a != b else (5.0 if a == q else 1.0)) for (a, b), v in sh.cov.items()}
                    sh.history.append('off-diagonal entries * 0.3 and variance of %s * 5 in place' % q)
                elif op == 'update':
                    new = pd_cov(rng, pars, {p: 3.0 * sh.errs[p] for p in pars})
                    if th.covariance is None or not isinstance(getattr(th, 'covariance', None), dict):
                        th.covariance = {}
                    th.covariance.update(new)
                    sh.cov = dict(sh.cov or {}); sh.cov.update(new)
                    sh.history.append('covariance.update(another positive-definite matrix, three times wider)')
                elif op == 'extra':
                    extra = [q for q in sh.cand if q not in pars]
                    if not extra:
                        continue
                    q = extra[0]
                    add = {(q, q): (0.01 * (abs(th.parameters[q]) + 0.1)) ** 2}
                    for a in pars:
                        add[(a, q)] = add[(q, a)] = 0.0
                    th.covariance.update(add)
                    sh.cov = dict(sh.cov); sh.cov.update(add)
                    sh.history.append('entries of the fixed parameter %s added to the covariance dictionary in place' % q)
                elif op == 'remove':
                    if len(pars) < 2:
                        continue
                    q = rng.choice(pars)
                    th.parameters_fixed[q] = True
                    for kk in [kk for kk in th.covariance if q in kk]:
                        del th.covariance[kk]
                    sh.cov = {kk: v for kk, v in sh.cov.items() if q not in kk}
                    sh.history.append('parameter %s fixed and its entries deleted from the covariance dictionary' % q)
                elif op == 'clear+errors':
                    th.covariance.clear()
                    sh.cov = None
                    sh.history.append('covariance dictionary emptied in place')
                else:
                    q = rng.choice(pars)
                    th.parameters_errors[q] *= 2.0
                    sh.errs = dict(sh.errs); sh.errs[q] *= 2.0
                    if sh.cov:
                        sh.history.append('parameters_errors[%s] doubled in place (covariance kept)' % q)
                    else:
                        sh.history.append('parameters_errors[%s] doubled in place (no covariance)' % q)
                check(sh, scenario, op)
        else:
            # several objects alive together; B (and later C) of the same class as A or of the other one
            A = new_shadow(kind, 'A')
            B = new_shadow(kind if rng.random() < 0.6 else rng.choice(['KM09', 'adhoc']), 'B')
            same_free = None
            parsA = start(A)
            if B.kind == A.kind and rng.random() < 0.7:      # the same free parameters in both objects
                release(rep, B.th, parsA)
                B.errs = {p: A.errs[p] * rng.uniform(1.5, 3) for p in B.th.free_parameters()}
                B.th.parameters_errors = dict(B.errs)
                B.history.append('errors assigned (free %s)' % ','.join(B.th.free_parameters()))
            else:
                start(B)
            check(A, scenario, 'A-errors-only')
            if rng.random() < 0.75:
                got = fitter_cov(B)
                if not got:
                    assign_cov(B, 2.0)
            else:
                assign_cov(B, 2.0)
            A.history.append('(another object B: %s)' % B.history[-1])
            check(B, scenario, 'B-own-covariance')
            check(A, scenario, 'A-after-B-got-covariance')
            # now A gets a covariance of its own, then a third object is fitted / assigned
            if rng.random() < 0.5:
                if not fitter_cov(A):
                    assign_cov(A)
            else:
                assign_cov(A)
            B.history.append('(another object A: %s)' % A.history[-1])
            check(A, scenario, 'A-own-covariance')
            check(B, scenario, 'B-after-A-got-covariance')
            Cc = new_shadow(rng.choice([A.kind, B.kind]), 'C')
            start(Cc)
            if not fitter_cov(Cc):
                assign_cov(Cc, 3.0)
            for sh_ in (A, B):
                sh_.history.append('(another object C: %s)' % Cc.history[-1])
            check(B, scenario, 'B-after-C-got-covariance')
            check(A, scenario, 'A-after-C-got-covariance')
            check(Cc, scenario, 'C-own-covariance')
    rep.coverage['state_stream_worst_relative_difference'] = float('%.3g' % worst[0])
    rep.notes.append('stream "state" is an oracle stream (formula sqrt(d^T C d) / quadrature sum on independently evaluated central '
                     'differences, tolerance 1e-6; no model): histories of in-place changes of the covariance/errors of one object, and '
                     'several theory objects (covariances by assignment and by MinuitFitter) alive in one process')


def loop_stream(rep, rng, quick):
    """the parameter bookkeeping of predict(uncertainty=True) versus Model/UncLoop.lean: an observable that records the
    parameter dictionary it sees at every call (and raises at a chosen one) is evaluated through the real predict; the
    sequence of dictionaries, the dictionary left behind and the outcome are compared bit for bit with the model"""
    import gepard as g
    lines, meta = [], []
    for c in range(60 if quick else 1500):
        kind = rng.choice(['KM09', 'adhoc'])
        th, cand, pool, _ = make_theory(rng, kind)
        pt = rng.choice(pool)
        fix_all(rep, th)
        free = rng.sample(cand, rng.randint(1, min(4, len(cand))))
        release(rep, th, free)
        pars = th.free_parameters()
        errs = {p: 1e-3 * (abs(th.parameters[p]) + 0.1) * rng.uniform(0.5, 2) for p in pars}
        missing = None
        if rng.random() < 0.15:
            missing = rng.choice(pars)          # parameters_errors[p] raises KeyError
        th.parameters_errors = {p: e for p, e in errs.items() if p != missing}
        th.covariance = {}
        # the recording observable; raises when parameter q has the value `target`
        q, target = '-', None
        r = rng.random()
        if r < 0.45:
            q = rng.choice(pars)
            target = th.parameters[q] + errs[q] / 2. if rng.random() < 0.5 else th.parameters[q] - errs[q] / 2.
        seen = []

        def OBS(pt_, th=th, seen=seen, q=q, target=target):
            seen.append(list(th.parameters.values()))
            if target is not None and th.parameters[q] == target:
                raise ValueError('boom')
            return 1.0
        th.OBS = OBS
        names = list(th.parameters.keys())
        before = list(th.parameters.values())
        try:
            th.predict(pt, observable='OBS', uncertainty=True)
            out = 'ok'
        except ValueError as e:
            out = 'exc:boom' if str(e) == 'boom' else 'exc:ValueError'
        except KeyError:
            out = 'exc:KeyError'
        except Exception as e:
            out = 'exc:' + type(e).__name__
        after = list(th.parameters.values())
        same_keys = list(th.parameters.keys()) == names
        lines.append(' '.join(['c18.loop', q, f2hex(target) if target is not None else '-', 'N'] + names + ['V'] +
                              [f2hex(float(v)) for v in before] + ['P'] + pars + ['H'] +
                              ['N' if p == missing else f2hex(errs[p]) for p in pars]))
        meta.append(dict(kind=kind, free=pars, raise_at=(q, target), missing_error=missing, seen=seen, after=after,
                         out=out, same_keys=same_keys, before=before))
        rep.hist('loop.outcome', out)
    try:
        outs = common.run_driver(lines)
    except common.ModelUnavailable as ex:
        outs = [None] * len(lines)
        rep.violation('model-unavailable', 'the Lean model of C18 could not be run (%s): only the checks on the real code alone were made '
                      '(parameters restored, central value, oracle and state streams)' % str(ex)[:300], dict(reason=str(ex)[:300]), found_input=False)
    for line, m, o in zip(lines, meta, outs):
        if o is None:
            # no model: what can be said on the real code alone — the parameters are left exactly as they were
            rep.case('loop', line[:300], sample=None)
            if not (m['same_keys'] and [f2hex(float(v)) for v in m['after']] == [f2hex(float(v)) for v in m['before']]):
                rep.violation('loop/params-not-restored', 'predict(uncertainty=True) with free parameters %s left theory.parameters changed '
                              '(observable %s)' % (m['free'], 'raising at %s=%r' % m['raise_at'] if m['raise_at'][1] is not None else 'returning'),
                              dict(free=m['free'], raise_at=str(m['raise_at']), missing_error=m['missing_error'], outcome=m['out']))
            continue
        rep.case('loop', line[:300], sample=dict(theory=m['kind'], free=m['free'], outcome=m['out']) if m is meta[0] else None)
        if o == 'bad-op':
            rep.violation('loop/bad-op', 'driver rejected a protocol line', dict(line=line[:500]), found_input=False)
            continue
        body, tail = o.rsplit(' = ', 1)
        fin = tail.split()
        mout = fin[-1]
        mfinal = fin[:-1]
        mtrace = [d.split() for d in body.split(' | ')] if body.strip() else []
        # the real call evaluates the observable once more, at the restored parameters, for the central value
        seen = [[f2hex(float(v)) for v in d] for d in m['seen']]
        expect = mtrace + ([mfinal] if mout == 'ok' else [])
        after = [f2hex(float(v)) for v in m['after']]
        restored = after == [f2hex(float(v)) for v in m['before']] and m['same_keys']
        if not restored:
            rep.violation('loop/params-not-restored', 'predict(uncertainty=True) with free parameters %s left theory.parameters changed '
                          '(observable %s)' % (m['free'], 'raising at %s=%r' % m['raise_at'] if m['raise_at'][1] is not None else 'returning'),
                          dict(free=m['free'], raise_at=str(m['raise_at']), missing_error=m['missing_error'], outcome=m['out']))
        elif seen != expect or after != mfinal or m['out'] != mout:
            rep.violation('loop/model', 'the dictionaries seen by the observable / left behind / the outcome differ from Model/UncLoop: '
                          'code %d evaluations, outcome %s; model %d, %s' % (len(seen), m['out'], len(expect), mout),
                          dict(free=m['free'], raise_at=str(m['raise_at']), missing_error=m['missing_error']), found_input=False)


CFF_NAMES = ('ImH', 'ReH', 'ImHt', 'ReHt', 'ImE', 'ReE')
POINT_KEYS = ('xB', 't', 'Q2', 'phi', 'FTn', 'varphi', 'varFTn', 'observable', 'frame', 'units', 'process', 'exptype',
              'in1particle', 'in1charge', 'in1energy', 'in1polarization', 'in1polarizationvector', 'in2particle', 'in2energy',
              'in2polarization', 'in2polarizationvector')


def convention_class(pt):
    """the class of a point with respect to what DataPoint.orig_conventions looks at: frame, explicit angle or harmonic,
    harmonic of the target angle, unit of the observable"""
    units = pt.get('units') or {}
    unit = units.get(pt.get('observable')) if isinstance(units, dict) else None
    if 'phi' in pt:
        ang = 'phi'
    elif 'FTn' in pt:
        n = pt.get('FTn')
        ang = 'FTn=%d' % n if n in (1, 3, -2, 0, -1, 2, -3) else 'FTn=other'
    else:
        ang = 'no-angle'
    var = 'varphi' if 'varphi' in pt else ('varFTn=%d' % pt.get('varFTn') if 'varFTn' in pt else '-')
    return (pt.get('frame') if 'frame' in pt else None, ang, var, 'pb' if unit == 'pb/GeV^4' else ('nb' if unit and 'GeV' in unit else '1'))


def options_stream(rep, rng, quick):
    """Oracle stream (closed formula on the harness's own central differences of plain evaluations; no model): the keyword
    options of predict(pt, uncertainty=True, **options) — orig_conventions=True, observable=<another observable / CFF>,
    parameters={...} and their combinations — on points of every convention class the bundled data have (Trento-frame
    harmonics FTn in {1, 3, -2, 0, -1, 2, -3} with and without a harmonic varFTn = +-1 of the target angle, BMK-frame
    harmonics, points at explicit phi, cross sections in nb and in pb) and on hand-made DataPoints (modified copies of bundled
    points: other frame / harmonic / unit; fresh DataPoint(...) objects, also bare (xB, t, Q2, observable, frame, FTn) ones
    with a CFF as the observable).

    Expected, whatever the options: (a) the uncertainty is >= 0 and is sqrt(d^T C d) (quadrature sum without a covariance) of
    the observable actually evaluated, at the parameter values actually used (the theory's, updated with `parameters`); with
    orig_conventions=True the same, or that times the unit factor |pt.orig_conventions(1)| — the property does not say in
    which unit the uncertainty is then expressed, but no convention makes it negative; (b) the central value is the plain
    prediction, sent through pt.orig_conventions when orig_conventions=True; (c) theory.parameters (keys and values) and the
    point are afterwards what they were before."""
    import gepard as g
    n = 48 if quick else 1200
    worst = [0.0]
    byclass = {}
    for p in fixtures.dvcs_points():
        if 't' in p and 'xB' in p and 'Q2' in p:
            byclass.setdefault(convention_class(p), []).append(p)
    classes = sorted(byclass, key=repr)
    groups = {
        'trento-harmonic': [k for k in classes if k[0] == 'Trento' and k[1].startswith('FTn') and k[2] == '-'],
        'trento-varFTn': [k for k in classes if k[0] == 'Trento' and k[2].startswith('varFTn')],
        'bmk': [k for k in classes if k[0] == 'BMK'],
        'phi': [k for k in classes if k[1] == 'phi' and k[3] != 'pb'],
        'pb': [k for k in classes if k[3] == 'pb'],
    }
    groups = {k: v for k, v in groups.items() if v}
    order = sorted(groups) + ['handmade-copy', 'handmade-fresh']
    rep.coverage['options_stream_convention_classes'] = len(classes)

    def handmade_copy(src):
        """a copy of a bundled point with another frame / harmonic / unit (the bundled point itself is left alone)"""
        q = src.copy()
        what = []
        for _ in range(rng.randint(1, 2)):
            r = rng.random()
            if r < 0.3 and 'frame' in q:
                q.frame = 'BMK' if q.frame == 'Trento' else 'Trento'
                what.append('frame=%s' % q.frame)
            elif r < 0.6 and 'FTn' in q and 'phi' not in q:
                q.FTn = rng.choice([k for k in (1, 3, -2, 0, -1, 2) if k != q.FTn])
                what.append('FTn=%d' % q.FTn)
            elif r < 0.75 and 'varFTn' in q:
                q.varFTn = -q.varFTn
                what.append('varFTn=%d' % q.varFTn)
            elif isinstance(q.get('units'), dict) and q.observable in q.units:
                new = 'pb/GeV^4' if q.units[q.observable] != 'pb/GeV^4' else 'nb/GeV^4'
                q.units = dict(q.units)
                q.units[q.observable] = new
                what.append('unit=%s' % new)
        return q, 'copy of a point of dataset %s with %s' % (src.get('id'), ', '.join(what) or 'nothing changed')

    def handmade_fresh(src, bare):
        """DataPoint(...) made by hand: from the kinematics of a bundled point with the frame / harmonic chosen here, or a
        bare point (xB, t, Q2, observable, frame, FTn[, varFTn]) that only CFFs can be evaluated on"""
        frame = rng.choice(['Trento', 'Trento', 'BMK'])
        if bare:
            kw = dict(xB=rng.uniform(0.05, 0.3), t=-rng.uniform(0.1, 0.5), Q2=rng.uniform(2.0, 6.0),
                      observable=rng.choice(['AC', 'ALU', 'BTSA', 'XUU']), frame=frame, FTn=rng.choice([1, 3, -2, 0, -1, 2]))
            if rng.random() < 0.3:
                kw['varFTn'] = rng.choice([1, -1])
            if kw['observable'] == 'XUU' or rng.random() < 0.3:
                kw['units'] = {kw['observable']: rng.choice(['pb/GeV^4', 'nb/GeV^4']) if kw['observable'] == 'XUU' else '1'}
            return g.DataPoint(**kw), 'DataPoint(%s)' % ', '.join('%s=%r' % kv for kv in sorted(kw.items()))
        kw = {k: src[k] for k in POINT_KEYS if k in src}
        kw['frame'] = frame
        if 'phi' not in kw and 'FTn' in kw:
            kw['FTn'] = rng.choice([1, 3, -2, 0, -1, 2])
        if isinstance(kw.get('units'), dict):
            kw['units'] = dict(kw['units'])
        return g.DataPoint(**kw), 'DataPoint(kinematics of a point of dataset %s, frame=%r, FTn=%r)' % (src.get('id'), frame, kw.get('FTn'))

    for c in range(n):
        group = order[c % len(order)]
        kind = rng.choice(['adhoc', 'adhoc', 'KM09'])
        th, cand, _, _ = make_theory(rng, kind)
        fix_all(rep, th)
        # ---- the point and the options (drawn again, a few times, when this theory cannot evaluate the observable there:
        #      neutron points with dipole form factors, target asymmetries with the BMK formulas or on unpolarized points, ...) ----
        drawn = None
        for attempt in range(6):
            bare = False
            try:
                if group.startswith('handmade'):
                    src = rng.choice(byclass[rng.choice([k for k in classes if k[1] != 'no-angle'])])
                    if group == 'handmade-copy':
                        pt, origin = handmade_copy(src)
                    else:
                        bare = rng.random() < 0.4
                        pt, origin = handmade_fresh(src, bare)
                else:
                    pt = rng.choice(byclass[rng.choice(groups[group])])
                    origin = 'bundled point of dataset %s' % pt.get('id')
            except Exception as e:
                rep.hist('options.redrawn', '%s: DataPoint(...) raises %s' % (group, type(e).__name__))
                continue
            opts = {}
            if rng.random() < 0.75:
                opts['orig_conventions'] = True
            if bare or rng.random() < 0.4:
                others = [o for o in CFF_NAMES if hasattr(th, o)]
                if not bare:
                    others += [o for o in ('AC', 'ALU', 'BSA', 'TSA', 'BTSA', 'XUU', 'XLU', 'XUUw', 'XLUw') if o != pt.observable and hasattr(th, o)]
                opts['observable'] = rng.choice(others)
            if rng.random() < 0.4 or not opts:
                opts['parameters'] = None          # filled below, when the free parameters are known
            obs = opts.get('observable', pt.observable)
            try:
                if math.isfinite(float(getattr(th, obs)(pt))):
                    drawn = True
                    break
                rep.hist('options.redrawn', '%s: %s not finite' % (group, obs))
            except Exception as e:
                rep.hist('options.redrawn', '%s: %s(%s)' % (group, type(e).__name__, str(e)[:60]))
        if not drawn:
            rep.case('options', (group, c, 'no point this theory evaluates'), nontrivial=False)
            continue
        cls = convention_class(pt)
        free = rng.sample(cand, rng.randint(1, min(3, len(cand))))
        if obs in cand and obs not in free:
            free[0] = obs                      # a constant CFF as the observable depends on itself only
        release(rep, th, free)
        pars = th.free_parameters()
        rel = rng.choice([1e-3, 3e-3])
        errs = {p: rel * (abs(th.parameters[p]) + 0.1) * rng.uniform(0.5, 2) for p in pars}
        th.parameters_errors = dict(errs)
        cov = None
        if rng.random() < 0.65:
            cov = pd_cov(rng, pars, errs)
            th.covariance = dict(cov)
        elif rng.random() < 0.5:
            th.covariance = {}
        if 'parameters' in opts:
            over = {}
            for q in rng.sample(list(cand), rng.randint(1, min(3, len(cand)))):
                over[q] = th.parameters[q] * rng.uniform(0.8, 1.2) + rng.choice([0.0, 0.05])
            opts['parameters'] = over
        before = dict(th.parameters)
        keys_before = list(th.parameters.keys())
        base = dict(before)
        base.update(opts.get('parameters') or {})
        ptb = dict(pt)
        fun = getattr(th, obs)

        def f_at(shift, th=th, fun=fun, pt=pt, base=base):
            saved = dict(th.parameters)
            try:
                th.parameters.clear(); th.parameters.update(base)
                for k, v in shift.items():
                    th.parameters[k] = base[k] + v
                return float(fun(pt))
            finally:
                th.parameters.clear(); th.parameters.update(saved)
        shown = {k: (v if isinstance(v, (int, float, str, bool)) or v is None else repr(v)) for k, v in opts.items() if k != 'parameters'}
        replay = dict(stream='options', group=group, origin=origin, theory=kind, options=shown, parameters_option=opts.get('parameters'),
                      convention_class=list(cls), dataset=pt.get('id'), point_observable=pt.get('observable'),
                      point={k: pt.get(k) for k in ('xB', 'Q2', 't', 'phi', 'FTn', 'varphi', 'varFTn', 'frame') if k in pt},
                      unit=(pt.get('units') or {}).get(pt.get('observable')) if isinstance(pt.get('units'), dict) else None,
                      free=pars, errors=errs, covariance=None if cov is None else {'%s,%s' % k: v for k, v in cov.items()})
        optname = '+'.join(sorted(opts))
        try:
            f0 = f_at({})
            d = np.array([(f_at({p: errs[p] / 2.}) - f_at({p: -errs[p] / 2.})) / errs[p] for p in pars])
            d4 = np.array([(f_at({p: errs[p] / 4.}) - f_at({p: -errs[p] / 4.})) / (errs[p] / 2.) for p in pars])
            factor = float(pt.orig_conventions(1.0)) if opts.get('orig_conventions') else 1.0
            want_val = float(pt.orig_conventions(f0)) if opts.get('orig_conventions') else f0
        except Exception as e:
            rep.case('options', (group, c, 'observable raises'), nontrivial=False)
            rep.hist('options.skipped', '%s: %s(%s)' % (group, type(e).__name__, str(e)[:60]))
            continue
        gR = (4 * d4 - d) / 3
        if cov:
            Cm = np.array([[cov[(a, b)] for b in pars] for a in pars])
            want = math.sqrt(max(float(d @ Cm @ d), 0.0))
            wantR = math.sqrt(max(float(gR @ Cm @ gR), 0.0))
        else:
            want = math.sqrt(sum((di * errs[p]) ** 2 for di, p in zip(d, pars)))
            wantR = math.sqrt(sum((gi * errs[p]) ** 2 for gi, p in zip(gR, pars)))
        curv = max([abs(a - b) / (abs(a) + abs(b) + 1e-300) for a, b in zip(d, d4)] or [0.0])
        if not (math.isfinite(want) and math.isfinite(f0) and math.isfinite(wantR) and math.isfinite(factor)):
            rep.case('options', (group, c, 'observable not finite'), nontrivial=False)
            continue
        rep.case('options', (group, cls, kind, obs, optname, tuple(pars), f2hex(f0), f2hex(want)), nontrivial=want > 0,
                 sample=dict(group=group, origin=origin, options=shown, parameters_option=opts.get('parameters'), theory=kind,
                             convention_class=list(cls), free=pars, conversion_factor=factor))
        rep.hist('options.group', group)
        rep.hist('options.keywords', optname)
        rep.hist('options.conversion', 'none asked' if not opts.get('orig_conventions') else
                 ('sign flip' if factor == -1 else ('identity' if factor == 1 else 'factor %g' % factor)))
        key = 'options/%s' % optname
        try:
            r = th.predict(pt, uncertainty=True, **opts)
            val, unc = float(r[0]), float(r[1])
            if len(r) != 2:
                raise ValueError('a tuple of %d members' % len(r))
        except Exception as e:
            rep.violation(key + '/exception', 'predict(pt, uncertainty=True, %s) on %s raised %s(%s) although the observable %s evaluates '
                          'there and the formula gives %r' % (shown, origin, type(e).__name__, str(e)[:100], obs, want), replay)
            th.parameters.clear(); th.parameters.update(before)
            continue
        after = dict(th.parameters)
        if list(th.parameters.keys()) != keys_before or any(f2hex(float(after[k])) != f2hex(float(before[k])) for k in before):
            changed = sorted(set(after) ^ set(before)) + [k for k in before if k in after and f2hex(float(after[k])) != f2hex(float(before[k]))]
            rep.violation(key + '/params-not-restored', 'predict(pt, uncertainty=True, %s%s) left theory.parameters changed: %s' % (
                shown, ', parameters=%r' % opts['parameters'] if 'parameters' in opts else '', changed), replay)
            th.parameters.clear(); th.parameters.update(before)
        if dict(pt) != ptb:
            rep.violation(key + '/point-changed', 'predict(pt, uncertainty=True, %s) changed the point (%s)' % (shown, origin), replay)
        if f2hex(val) != f2hex(want_val) and not (val == 0.0 and want_val == 0.0):      # (an observable returning the integer 0 has no -0)
            rep.violation(key + '/central', 'central value %r of predict(pt, uncertainty=True, %s) on %s differs from %s %r' % (
                val, shown, origin, 'pt.orig_conventions(plain prediction) =' if opts.get('orig_conventions') else 'the plain prediction', want_val),
                dict(replay, code=val, expected=want_val))
        scale = 1e-12 * abs(f0)
        accepted = sorted({1.0, abs(factor)})
        err = min(relerr(unc, k * want, k * scale) for k in accepted)
        if want > 0:
            worst[0] = max(worst[0], err)
        if unc < 0 or not math.isfinite(unc):
            rep.violation(key + '/negative', 'predict(pt, uncertainty=True, %s) on %s (class %s, pt.orig_conventions(1) = %r): the uncertainty '
                          'of %s with free=%s is %r — an uncertainty is never negative; sqrt(d^T C d) with the %s is %r' % (
                              shown, origin, cls, factor, obs, pars, unc, 'covariance' if cov else 'parameter errors (no covariance)', want),
                          dict(replay, code=unc, formula=want, richardson=wantR, conversion_factor=factor), found_input=True)
        elif err > 1e-6:
            found = curv < 5e-3 and min(relerr(unc, k * wantR, k * scale) for k in accepted) > 2e-2
            rep.violation(key + '/value', 'predict(pt, uncertainty=True, %s) on %s (class %s): uncertainty of %s with free=%s is %r, but '
                          'sqrt(d^T C d) with the %s is %r (times the unit factor %r at most; independent Richardson gradient: %r, relative '
                          'curvature %.1e)' % (shown, origin, cls, obs, pars, unc, 'covariance' if cov else 'parameter errors (no covariance)',
                                               want, abs(factor), wantR, curv),
                          dict(replay, code=unc, formula=want, richardson=wantR, conversion_factor=factor), found_input=found)
    rep.coverage['options_stream_worst_relative_difference'] = float('%.3g' % worst[0])
    rep.notes.append('stream "options" is an oracle stream (formula on the harness\'s own central differences, tolerance 1e-6; no model): '
                     'predict(uncertainty=True) with orig_conventions / observable / parameters on points of every convention class '
                     '(with orig_conventions the uncertainty may be in either unit, never negative)')


def run(rep):
    import gepard as g
    rng = rep.rng
    ok, why = common.lean_side(rep, 'C18')
    quick = rep.tier == 'quick'
    n = 120 if quick else 3000
    lines, meta = [], []
    for c in range(n):
        kind = rng.choice(['KM09', 'adhoc'])
        th, cand, pool, obslist = make_theory(rng, kind)
        pt = rng.choice(pool)
        obs = rng.choice(obslist)
        if obs is None:
            obs = pt.observable
        if kind == 'adhoc' and obs in ('XUU',) and 'phi' not in pt and 'FTn' not in pt:
            obs = pt.observable
        # start from everything fixed, release a random subset
        fix_all(rep, th)
        free = rng.sample(cand, rng.randint(1, min(4, len(cand))))
        release(rep, th, free)
        pars = th.free_parameters()
        rel = rng.choice([1e-3, 3e-3, 1e-2])
        errs = {p: rel * (abs(th.parameters[p]) + 0.1) * rng.uniform(0.5, 2) for p in pars}
        th.parameters_errors = dict(errs)
        mode = rng.choice(['cov', 'cov', 'supercov', 'diag', 'emptycov'])
        C = None
        if mode == 'supercov':
            # the covariance comes from a fit with MORE free parameters; some were fixed afterwards
            extra = [c_ for c_ in cand if c_ not in pars][:2]
            allp = pars + extra
            if not extra:
                mode = 'cov'
            else:
                eall = dict(errs)
                for q in extra:
                    eall[q] = rel * (abs(th.parameters[q]) + 0.1)
                A = np.array([[rng.gauss(0, 1) for _ in allp] for _ in allp])
                S = A @ A.T + 0.3 * np.eye(len(allp))
                d = np.sqrt(np.diag(S))
                ee = np.array([eall[q] for q in allp])
                Call = S / np.outer(d, d) * np.outer(ee, ee)
                th.covariance = {(p1, p2): float(Call[i, j]) for i, p1 in enumerate(allp) for j, p2 in enumerate(allp)}
                C = Call[:len(pars), :len(pars)]
        if mode == 'cov':
            A = np.array([[rng.gauss(0, 1) for _ in pars] for _ in pars])
            S = A @ A.T + 0.3 * np.eye(len(pars))
            d = np.sqrt(np.diag(S))
            corr = S / np.outer(d, d)
            e = np.array([errs[p] for p in pars])
            C = corr * np.outer(e, e)
            th.covariance = {(p1, p2): float(C[i, j]) for i, p1 in enumerate(pars) for j, p2 in enumerate(pars)}
        elif mode == 'emptycov':
            th.covariance = {}
        # declared limits, sometimes with the parameter sitting within half an error of a limit
        if rng.random() < 0.5:
            lims = {}
            for q in pars:
                v = th.parameters[q]
                if rng.random() < 0.5:
                    lims[q] = (v - 0.1 * errs[q], v + 50 * errs[q]) if rng.random() < 0.5 else (v - 50 * errs[q], v + 0.2 * errs[q])
                else:
                    lims[q] = (v - 10 * errs[q], v + 10 * errs[q])
            th.parameters_limits.update(lims)
            rep.hist('limits', 'near-limit')
        # one or two rounds on the SAME theory object and point: before the second one the parameter values are changed
        # by assignment (what a user exploring a model does) — nothing of the first round may survive
        for rnd in range(2 if rng.random() < 0.4 else 1):
            if rnd == 1:
                for q in pars:
                    th.parameters[q] = th.parameters[q] + rng.choice([-1, 1]) * rng.uniform(2, 6) * errs[q]
                    if q in th.parameters_limits:
                        th.parameters_limits[q] = (th.parameters[q] - 10 * errs[q], th.parameters[q] + 10 * errs[q])
                rep.hist('rounds', 'second round after changing the parameter values')
            before = dict(th.parameters)
            ptb = dict(pt)
            try:
                r = th.predict(pt, uncertainty=True, observable=obs)
                impl = (float(r[0]), float(r[1]))
            except Exception as e:
                impl = 'EXC:' + type(e).__name__
            after = dict(th.parameters)
            restored = all(f2hex(before[k]) == f2hex(after[k]) for k in before if k not in ('ng', 'Eng', 'kapg')) and set(before) == set(after)
            # independent evaluations of the observable at the 2n+1 points (fresh parameter dict each time)
            fun = getattr(th, obs)

            def f_at(shift, th=th, fun=fun, pt=pt, base=dict(before)):
                # always at THIS round's parameter values (the theory object may have moved on since)
                saved = dict(th.parameters)
                try:
                    th.parameters.clear(); th.parameters.update(base)
                    for k, v in shift.items():
                        th.parameters[k] = base[k] + v
                    return float(fun(pt))
                finally:
                    th.parameters.clear(); th.parameters.update(saved)
            try:
                f0 = f_at({})
                ups = [f_at({p: errs[p] / 2.}) for p in pars]
                downs = [f_at({p: -errs[p] / 2.}) for p in pars]
                plain = float(th.predict(pt, observable=obs))
            except Exception as e:
                f0 = ups = downs = plain = None
            if f0 is None or isinstance(impl, str):
                rep.case('exception', (kind, obs, c), nontrivial=False)
                if isinstance(impl, str) != (f0 is None):
                    rep.violation('unc/exception', 'predict(uncertainty=True, observable=%s) %s while the plain evaluations %s' % (
                        obs, impl, 'fail' if f0 is None else 'succeed'), dict(theory=kind, obs=obs, free=pars))
                continue
            theta = [before[p] for p in pars]
            hs = [errs[p] for p in pars]
            xs = theta + hs + [f0] + ups + downs
            if C is not None:
                xs += [float(C[i, j]) for i in range(len(pars)) for j in range(len(pars))]
            lines.append('c18.unc %d %d %s' % (len(pars), 1 if C is not None else 0, ' '.join(map(f2hex, xs))))
            meta.append(dict(kind=kind, obs=obs, free=pars, mode=mode, rel=rel, impl=impl, plain=plain, restored=restored, round=rnd,
                             pt_ok=(dict(pt) == ptb), th=th, pt=pt, errs=errs, C=C, f_at=f_at, f0=f0,
                             dataset=pt.get('id')))
            rep.hist('mode', mode)
            rep.hist('nfree', len(pars))
            rep.hist('obs', obs)
    loop_stream(rep, rng, quick)
    state_stream(rep, rng, quick)
    try:
        outs = common.run_driver(lines)
    except common.ModelUnavailable as ex:
        outs = [None] * len(lines)
        rep.violation('model-unavailable', 'the Lean model of C18 could not be run (%s): only the checks on the real code alone were made '
                      '(parameters restored, central value, oracle and state streams)' % str(ex)[:300], dict(reason=str(ex)[:300]), found_input=False)
    for line, m, o in zip(lines, meta, outs):
        sample = {k: m[k] for k in ('kind', 'obs', 'free', 'mode', 'rel', 'impl', 'dataset', 'round')}
        rep.case('unc', line, sample=sample)
        base = dict(sample)
        if o is None:
            # no model: the model's formula evaluated in Python on the same independently evaluated up/down values
            xs = [hex2f(x) for x in line.split()[3:]]
            npar = len(m['free'])
            f0_, ups_, downs_ = xs[2 * npar], xs[2 * npar + 1:3 * npar + 1], xs[3 * npar + 1:4 * npar + 1]
            d_ = np.array([(u - dn) / m['errs'][q] for u, dn, q in zip(ups_, downs_, m['free'])])
            val = f0_
            unc = math.sqrt(max(float(d_ @ m['C'] @ d_), 0.0)) if m['C'] is not None else \
                math.sqrt(sum((di * m['errs'][q]) ** 2 for di, q in zip(d_, m['free'])))
        else:
            val, unc = [hex2f(x) for x in o.split()]
        if not m['restored']:
            rep.violation('unc/params-not-restored', 'predict(uncertainty=True) left the parameters changed (%s, free=%s)' % (m['obs'], m['free']), base)
        if not m['pt_ok']:
            rep.violation('unc/point-changed', 'predict(uncertainty=True) changed the point', base)
        if f2hex(m['impl'][0]) != f2hex(m['plain']):
            rep.violation('unc/central', 'central value %r returned with the uncertainty differs from the plain prediction %r (%s)' % (
                m['impl'][0], m['plain'], m['obs']), base)
        scale = max(abs(unc), 1e-300)
        if relerr(m['impl'][1], unc, 0.0) > 1e-9 or f2hex(m['impl'][0]) != f2hex(val):
            # failing-input search: the property itself, with an independent Richardson gradient
            pars, errs, f_at = m['free'], m['errs'], m['f_at']
            g_ = []
            for p in pars:
                h = errs[p]
                d1 = (f_at({p: h / 2}) - f_at({p: -h / 2})) / h
                d2 = (f_at({p: h / 4}) - f_at({p: -h / 4})) / (h / 2)
                g_.append((4 * d2 - d1) / 3)
            g_ = np.array(g_)
            if m['C'] is not None:
                want = math.sqrt(max(float(g_ @ m['C'] @ g_), 0.0))
            else:
                want = math.sqrt(sum((gi * errs[p]) ** 2 for gi, p in zip(g_, pars)))
            found = relerr(m['impl'][1], want) > 2e-2
            rep.violation('unc/value/%s' % m['mode'], 'uncertainty of %s (free=%s, %s): code %r, model %r, linear propagation with an '
                          'independent gradient %r' % (m['obs'], pars, m['mode'], m['impl'][1], unc, want),
                          dict(base, model=unc, linear=want), found_input=found)
    # ---- oracle stream: the linear-propagation claim on the real code (supports, does not replace, the theorems) ----
    nor = 0
    for m in meta[:: (3 if quick else 1)]:
        pars, errs, f_at = m['free'], m['errs'], m['f_at']
        try:
            g_, curv = [], []
            for p in pars:
                h = errs[p]
                up, dn = f_at({p: h / 2}), f_at({p: -h / 2})
                d1 = (up - dn) / h
                d2 = (f_at({p: h / 4}) - f_at({p: -h / 4})) / (h / 2)
                g_.append((4 * d2 - d1) / 3)
                curv.append(abs(d1 - d2) / (abs(d1) + abs(d2) + 1e-300))
            g_ = np.array(g_)
            if m['C'] is not None:
                want = math.sqrt(max(float(g_ @ m['C'] @ g_), 0.0))
            else:
                want = math.sqrt(sum((gi * errs[p]) ** 2 for gi, p in zip(g_, pars)))
        except Exception:
            continue
        nor += 1
        rep.case('oracle', ('o', m['obs'], tuple(pars), m['rel'], nor), sample=None)
        # cut-off and tolerance belong together: a relative curvature c (difference of the central differences at h and h/2 over
        # their sum) means the code's central difference at step h is off the gradient by (4/3)*2*c ~ 2.7 c (measured over 3605
        # cases: error = 0.149 * 2e-2 at c = 1.1e-3, linear in c).  The tolerance 2e-2 therefore admits c < 5e-3 (error <= 1.4e-2),
        # not the whole range c < 1e-2 of the quantifier, where 2.7 % may legitimately occur
        rep.hist('oracle.curvature', 'admitted (< 5e-3)' if max(curv) < 5e-3 else 'not compared (>= 5e-3)')
        if max(curv) < 5e-3 and relerr(m['impl'][1], want, 1e-12 * abs(m['impl'][0])) > 2e-2:
            rep.violation('oracle/linear/%s' % m['mode'], 'uncertainty %r of %s differs from sqrt(g^T C g) = %r with an independent '
                          'gradient (relative curvature %.1e)' % (m['impl'][1], m['obs'], want, max(curv)),
                          dict(kind=m['kind'], obs=m['obs'], free=pars, mode=m['mode']))
    rep.notes.append('oracle stream (independent Richardson gradient, tolerance 2e-2 for relative curvature < 5e-3) supports the '
                     'part of the property the theorems state only under the local-quadratic hypothesis')
    # last, so that the random sequence of the streams above is what it was before this stream existed
    options_stream(rep, rng, quick)
    if not ok and not rep.violations:
        rep.violation('lean', 'Lean side of C18 no longer checks: ' + why, dict(reason=why), found_input=False)
    rep.assumptions += ['the observable enters the model as the table of its values at the 2n+1 evaluation points, obtained by '
                        'independent evaluations with the same shifted parameters',
                        'model vs code tolerance 1e-9 relative on the uncertainty, exact on the central value']
    return rep.finish(level='proof', checker_cmd='lake build Props.C18; #print axioms; gepdriver c18.unc vs Theory.predict(uncertainty=True)',
                      trusted=['Lean 4.33 kernel', 'Scalar/Uncert.lean.in instantiated at Float and ℝ', 'harness/props/C18.py'])


def replay(path):
    print(open(path).read()[:3000])
    return 0

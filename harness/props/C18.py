"""C18 — prediction uncertainties are the linear propagation of the fit covariance.

Lean: Props/C18.lean (ℝ) over Scalar/Uncert.lean.in — the returned pair is (f(θ), √(dᵀCd)) resp. the
diagonal fallback; for observables that are affine/quadratic along the coordinate lines the central
differences are the exact gradient, hence exact linear propagation; remainder formula otherwise.
Correspondence: Theory.predict(pt, uncertainty=True, observable=…) on fresh theories with synthetic
positive-definite covariances versus the Float model fed with independently evaluated up/down values;
plus an oracle stream (independent Richardson gradient) for the linear-propagation claim itself and
the restoration of the parameters.
"""
import math

import numpy as np

import common
import fixtures
from common import f2hex, hex2f, relerr


def make_theory(rng, kind):
    from gepard import fits
    if kind == 'KM09':
        th = fits.KM09()
        th.parameters.update(rng.choice([fits.par_KM09a, fits.par_KM09b]))
        cand = ['Nv', 'rv', 'bv', 'C', 'mC2', 'mv2', 'trv', 'tbv', 'NS', 'bS']
        cand = [c for c in cand if c in th.parameters]
        pool = [p for p in fits.GLOpoints]
        obs = ['ImH', 'ReH', 'ImHt', 'ReHt', None, None]
    else:
        th = fixtures.adhoc('KellyEFF', rng.choice(['BMK', 'BM10', 'hotfixedBMK']),
                            {'ImH': 8.0, 'ReH': -3.0, 'ImHt': 2.0, 'ReE': 1.5, 'ImE': 0.7})
        cand = ['ImH', 'ReH', 'ImHt', 'ReHt', 'ImE', 'ReE']
        pool = [p for p in fixtures.dvcs_points() if p.get('observable') in ('ALU', 'AC', 'XUU', 'XLU', 'BSA', 'TSA', 'BTSA')
                and 't' in p and ('phi' in p or 'FTn' in p) and hasattr(th, p.observable)]
        obs = [None, None, None, 'XUU' , 'ImH']
    return th, cand, pool, obs


def loop_stream(rep, rng, quick):
    """the parameter bookkeeping of predict(uncertainty=True) versus Model/UncLoop.lean: an observable that records the
    parameter dictionary it sees at every call (and raises at a chosen one) is evaluated through the real predict; the
    sequence of dictionaries, the dictionary left behind and the outcome are compared bit for bit with the model"""
    import gepard as g
    lines, meta = [], []
    for c in range(60 if quick else 1500):
        kind = rng.choice(['KM09', 'adhoc'])
        th, cand, pool, _ = make_theory(rng, kind)
        pt = rng.choice(pool)
        th._fix_parameters('ALL')
        for k in th.parameters:
            th.parameters_fixed[k] = True
        free = rng.sample(cand, rng.randint(1, min(4, len(cand))))
        th._release_parameters(*free)
        pars = th.free_parameters()
        errs = {p: 1e-3 * (abs(th.parameters[p]) + 0.1) * rng.uniform(0.5, 2) for p in pars}
        missing = None
        if rng.random() < 0.15:
            missing = rng.choice(pars)          # parameters_errors[p] raises KeyError
        th.parameters_errors = {p: e for p, e in errs.items() if p != missing}
        th.covariance = {}
        # the recording observable; raises when parameter q has the value `target`
        q, target = '-', None
        r = rng.random()
        if r < 0.45:
            q = rng.choice(pars)
            target = th.parameters[q] + errs[q] / 2. if rng.random() < 0.5 else th.parameters[q] - errs[q] / 2.
        seen = []

        def OBS(pt_, th=th, seen=seen, q=q, target=target):
            seen.append(list(th.parameters.values()))
            if target is not None and th.parameters[q] == target:
                raise ValueError('boom')
            return 1.0
        th.OBS = OBS
        names = list(th.parameters.keys())
        before = list(th.parameters.values())
        try:
            th.predict(pt, observable='OBS', uncertainty=True)
            out = 'ok'
        except ValueError as e:
            out = 'exc:boom' if str(e) == 'boom' else 'exc:ValueError'
        except KeyError:
            out = 'exc:KeyError'
        except Exception as e:
            out = 'exc:' + type(e).__name__
        after = list(th.parameters.values())
        same_keys = list(th.parameters.keys()) == names
        lines.append(' '.join(['c18.loop', q, f2hex(target) if target is not None else '-', 'N'] + names + ['V'] +
                              [f2hex(float(v)) for v in before] + ['P'] + pars + ['H'] +
                              ['N' if p == missing else f2hex(errs[p]) for p in pars]))
        meta.append(dict(kind=kind, free=pars, raise_at=(q, target), missing_error=missing, seen=seen, after=after,
                         out=out, same_keys=same_keys, before=before))
        rep.hist('loop.outcome', out)
    outs = common.run_driver(lines)
    for line, m, o in zip(lines, meta, outs):
        rep.case('loop', line[:300], sample=dict(theory=m['kind'], free=m['free'], outcome=m['out']) if m is meta[0] else None)
        if o == 'bad-op':
            rep.violation('loop/bad-op', 'driver rejected a protocol line', dict(line=line[:500]), found_input=False)
            continue
        body, tail = o.rsplit(' = ', 1)
        fin = tail.split()
        mout = fin[-1]
        mfinal = fin[:-1]
        mtrace = [d.split() for d in body.split(' | ')] if body.strip() else []
        # the real call evaluates the observable once more, at the restored parameters, for the central value
        seen = [[f2hex(float(v)) for v in d] for d in m['seen']]
        expect = mtrace + ([mfinal] if mout == 'ok' else [])
        after = [f2hex(float(v)) for v in m['after']]
        restored = after == [f2hex(float(v)) for v in m['before']] and m['same_keys']
        if not restored:
            rep.violation('loop/params-not-restored', 'predict(uncertainty=True) with free parameters %s left theory.parameters changed '
                          '(observable %s)' % (m['free'], 'raising at %s=%r' % m['raise_at'] if m['raise_at'][1] is not None else 'returning'),
                          dict(free=m['free'], raise_at=str(m['raise_at']), missing_error=m['missing_error'], outcome=m['out']))
        elif seen != expect or after != mfinal or m['out'] != mout:
            rep.violation('loop/model', 'the dictionaries seen by the observable / left behind / the outcome differ from Model/UncLoop: '
                          'code %d evaluations, outcome %s; model %d, %s' % (len(seen), m['out'], len(expect), mout),
                          dict(free=m['free'], raise_at=str(m['raise_at']), missing_error=m['missing_error']), found_input=False)


def run(rep):
    import gepard as g
    rng = rep.rng
    ok, why = common.lean_side(rep, 'C18')
    quick = rep.tier == 'quick'
    n = 120 if quick else 3000
    lines, meta = [], []
    for c in range(n):
        kind = rng.choice(['KM09', 'adhoc'])
        th, cand, pool, obslist = make_theory(rng, kind)
        pt = rng.choice(pool)
        obs = rng.choice(obslist)
        if obs is None:
            obs = pt.observable
        if kind == 'adhoc' and obs in ('XUU',) and 'phi' not in pt and 'FTn' not in pt:
            obs = pt.observable
        # start from everything fixed, release a random subset
        th._fix_parameters('ALL')
        for k in th.parameters:
            th.parameters_fixed[k] = True
        free = rng.sample(cand, rng.randint(1, min(4, len(cand))))
        th._release_parameters(*free)
        pars = th.free_parameters()
        rel = rng.choice([1e-3, 3e-3, 1e-2])
        errs = {p: rel * (abs(th.parameters[p]) + 0.1) * rng.uniform(0.5, 2) for p in pars}
        th.parameters_errors = dict(errs)
        mode = rng.choice(['cov', 'cov', 'supercov', 'diag', 'emptycov'])
        C = None
        if mode == 'supercov':
            # the covariance comes from a fit with MORE free parameters; some were fixed afterwards
            extra = [c_ for c_ in cand if c_ not in pars][:2]
            allp = pars + extra
            if not extra:
                mode = 'cov'
            else:
                eall = dict(errs)
                for q in extra:
                    eall[q] = rel * (abs(th.parameters[q]) + 0.1)
                A = np.array([[rng.gauss(0, 1) for _ in allp] for _ in allp])
                S = A @ A.T + 0.3 * np.eye(len(allp))
                d = np.sqrt(np.diag(S))
                ee = np.array([eall[q] for q in allp])
                Call = S / np.outer(d, d) * np.outer(ee, ee)
                th.covariance = {(p1, p2): float(Call[i, j]) for i, p1 in enumerate(allp) for j, p2 in enumerate(allp)}
                C = Call[:len(pars), :len(pars)]
        if mode == 'cov':
            A = np.array([[rng.gauss(0, 1) for _ in pars] for _ in pars])
            S = A @ A.T + 0.3 * np.eye(len(pars))
            d = np.sqrt(np.diag(S))
            corr = S / np.outer(d, d)
            e = np.array([errs[p] for p in pars])
            C = corr * np.outer(e, e)
            th.covariance = {(p1, p2): float(C[i, j]) for i, p1 in enumerate(pars) for j, p2 in enumerate(pars)}
        elif mode == 'emptycov':
            th.covariance = {}
        # declared limits, sometimes with the parameter sitting within half an error of a limit
        if rng.random() < 0.5:
            lims = {}
            for q in pars:
                v = th.parameters[q]
                if rng.random() < 0.5:
                    lims[q] = (v - 0.1 * errs[q], v + 50 * errs[q]) if rng.random() < 0.5 else (v - 50 * errs[q], v + 0.2 * errs[q])
                else:
                    lims[q] = (v - 10 * errs[q], v + 10 * errs[q])
            th.parameters_limits.update(lims)
            rep.hist('limits', 'near-limit')
        # one or two rounds on the SAME theory object and point: before the second one the parameter values are changed
        # by assignment (what a user exploring a model does) — nothing of the first round may survive
        for rnd in range(2 if rng.random() < 0.4 else 1):
            if rnd == 1:
                for q in pars:
                    th.parameters[q] = th.parameters[q] + rng.choice([-1, 1]) * rng.uniform(2, 6) * errs[q]
                    if q in th.parameters_limits:
                        th.parameters_limits[q] = (th.parameters[q] - 10 * errs[q], th.parameters[q] + 10 * errs[q])
                rep.hist('rounds', 'second round after changing the parameter values')
            before = dict(th.parameters)
            ptb = dict(pt)
            try:
                r = th.predict(pt, uncertainty=True, observable=obs)
                impl = (float(r[0]), float(r[1]))
            except Exception as e:
                impl = 'EXC:' + type(e).__name__
            after = dict(th.parameters)
            restored = all(f2hex(before[k]) == f2hex(after[k]) for k in before if k not in ('ng', 'Eng', 'kapg')) and set(before) == set(after)
            # independent evaluations of the observable at the 2n+1 points (fresh parameter dict each time)
            fun = getattr(th, obs)

            def f_at(shift, th=th, fun=fun, pt=pt, base=dict(before)):
                # always at THIS round's parameter values (the theory object may have moved on since)
                saved = dict(th.parameters)
                try:
                    th.parameters.clear(); th.parameters.update(base)
                    for k, v in shift.items():
                        th.parameters[k] = base[k] + v
                    return float(fun(pt))
                finally:
                    th.parameters.clear(); th.parameters.update(saved)
            try:
                f0 = f_at({})
                ups = [f_at({p: errs[p] / 2.}) for p in pars]
                downs = [f_at({p: -errs[p] / 2.}) for p in pars]
                plain = float(th.predict(pt, observable=obs))
            except Exception as e:
                f0 = ups = downs = plain = None
            if f0 is None or isinstance(impl, str):
                rep.case('exception', (kind, obs, c), nontrivial=False)
                if isinstance(impl, str) != (f0 is None):
                    rep.violation('unc/exception', 'predict(uncertainty=True, observable=%s) %s while the plain evaluations %s' % (
                        obs, impl, 'fail' if f0 is None else 'succeed'), dict(theory=kind, obs=obs, free=pars))
                continue
            theta = [before[p] for p in pars]
            hs = [errs[p] for p in pars]
            xs = theta + hs + [f0] + ups + downs
            if C is not None:
                xs += [float(C[i, j]) for i in range(len(pars)) for j in range(len(pars))]
            lines.append('c18.unc %d %d %s' % (len(pars), 1 if C is not None else 0, ' '.join(map(f2hex, xs))))
            meta.append(dict(kind=kind, obs=obs, free=pars, mode=mode, rel=rel, impl=impl, plain=plain, restored=restored, round=rnd,
                             pt_ok=(dict(pt) == ptb), th=th, pt=pt, errs=errs, C=C, f_at=f_at, f0=f0,
                             dataset=pt.get('id')))
            rep.hist('mode', mode)
            rep.hist('nfree', len(pars))
            rep.hist('obs', obs)
    loop_stream(rep, rng, quick)
    outs = common.run_driver(lines)
    for line, m, o in zip(lines, meta, outs):
        val, unc = [hex2f(x) for x in o.split()]
        sample = {k: m[k] for k in ('kind', 'obs', 'free', 'mode', 'rel', 'impl', 'dataset', 'round')}
        rep.case('unc', line, sample=sample)
        base = dict(sample)
        if not m['restored']:
            rep.violation('unc/params-not-restored', 'predict(uncertainty=True) left the parameters changed (%s, free=%s)' % (m['obs'], m['free']), base)
        if not m['pt_ok']:
            rep.violation('unc/point-changed', 'predict(uncertainty=True) changed the point', base)
        if f2hex(m['impl'][0]) != f2hex(m['plain']):
            rep.violation('unc/central', 'central value %r returned with the uncertainty differs from the plain prediction %r (%s)' % (
                m['impl'][0], m['plain'], m['obs']), base)
        scale = max(abs(unc), 1e-300)
        if relerr(m['impl'][1], unc, 0.0) > 1e-9 or f2hex(m['impl'][0]) != f2hex(val):
            # failing-input search: the property itself, with an independent Richardson gradient
            pars, errs, f_at = m['free'], m['errs'], m['f_at']
            g_ = []
            for p in pars:
                h = errs[p]
                d1 = (f_at({p: h / 2}) - f_at({p: -h / 2})) / h
                d2 = (f_at({p: h / 4}) - f_at({p: -h / 4})) / (h / 2)
                g_.append((4 * d2 - d1) / 3)
            g_ = np.array(g_)
            if m['C'] is not None:
                want = math.sqrt(max(float(g_ @ m['C'] @ g_), 0.0))
            else:
                want = math.sqrt(sum((gi * errs[p]) ** 2 for gi, p in zip(g_, pars)))
            found = relerr(m['impl'][1], want) > 2e-2
            rep.violation('unc/value/%s' % m['mode'], 'uncertainty of %s (free=%s, %s): code %r, model %r, linear propagation with an '
                          'independent gradient %r' % (m['obs'], pars, m['mode'], m['impl'][1], unc, want),
                          dict(base, model=unc, linear=want), found_input=found)
    # ---- oracle stream: the linear-propagation claim on the real code (supports, does not replace, the theorems) ----
    nor = 0
    for m in meta[:: (3 if quick else 1)]:
        pars, errs, f_at = m['free'], m['errs'], m['f_at']
        try:
            g_, curv = [], []
            for p in pars:
                h = errs[p]
                up, dn = f_at({p: h / 2}), f_at({p: -h / 2})
                d1 = (up - dn) / h
                d2 = (f_at({p: h / 4}) - f_at({p: -h / 4})) / (h / 2)
                g_.append((4 * d2 - d1) / 3)
                curv.append(abs(d1 - d2) / (abs(d1) + abs(d2) + 1e-300))
            g_ = np.array(g_)
            if m['C'] is not None:
                want = math.sqrt(max(float(g_ @ m['C'] @ g_), 0.0))
            else:
                want = math.sqrt(sum((gi * errs[p]) ** 2 for gi, p in zip(g_, pars)))
        except Exception:
            continue
        nor += 1
        rep.case('oracle', ('o', m['obs'], tuple(pars), m['rel'], nor), sample=None)
        if max(curv) < 1e-2 and relerr(m['impl'][1], want, 1e-12 * abs(m['impl'][0])) > 2e-2:
            rep.violation('oracle/linear/%s' % m['mode'], 'uncertainty %r of %s differs from sqrt(g^T C g) = %r with an independent '
                          'gradient (relative curvature %.1e)' % (m['impl'][1], m['obs'], want, max(curv)),
                          dict(kind=m['kind'], obs=m['obs'], free=pars, mode=m['mode']))
    rep.notes.append('oracle stream (independent Richardson gradient, tolerance 2e-2 for relative curvature < 1e-2) supports the '
                     'part of the property the theorems state only under the local-quadratic hypothesis')
    if not ok and not rep.violations:
        rep.violation('lean', 'Lean side of C18 no longer checks: ' + why, dict(reason=why), found_input=False)
    rep.assumptions += ['the observable enters the model as the table of its values at the 2n+1 evaluation points, obtained by '
                        'independent evaluations with the same shifted parameters',
                        'model vs code tolerance 1e-9 relative on the uncertainty, exact on the central value']
    return rep.finish(level='proof', checker_cmd='lake build Props.C18; #print axioms; gepdriver c18.unc vs Theory.predict(uncertainty=True)',
                      trusted=['Lean 4.33 kernel', 'Scalar/Uncert.lean.in instantiated at Float and ℝ', 'harness/props/C18.py'])


def replay(path):
    print(open(path).read()[:3000])
    return 0

"""C10 — chi-square is the sum of squared pulls: additive and order-independent.

Lean: Props/C10.lean (ℝ) over Scalar/ChiSq.lean.in; the Float instantiation of the same text is
run by the driver.  Correspondence: Theory.chisq / Theory.pull on shipped and ad-hoc theories over
random sub-multisets, permutations and re-slicings of the bundled points, asym ∈ {F,T}, with and
without parameter overrides, versus the model fed with Theory.predict's values.
"""
import math

import common
import fixtures
from common import f2hex, hex2f, relerr

TOL = 1e-11


def run(rep):
    import gepard as g
    rng = rep.rng
    ok, why = common.lean_side(rep, 'C10')
    quick = rep.tier == 'quick'
    pools = []
    for name, th, pts in fixtures.shipped():
        if quick and name in ('AFKM12',):
            continue
        k = {'KM09a': 36, 'KM09b': 40}.get(name, 14 if quick else 60)
        pool = rng.sample(pts, min(k, len(pts)))
        pools.append((name, th, pool))
    # ad-hoc combinations: constant CFFs with each formula set, on DVCS points carrying phi or FTn
    allp = [p for p in fixtures.dvcs_points() if getattr(p, 'observable', '') in
            ('XUU', 'XLU', 'ALU', 'AC', 'BSA', 'XUUw', 'XLUw') and 't' in p]
    for formulas in (['BMK', 'BM10'] if quick else ['BMK', 'hotfixedBMK', 'BM10ex', 'BM10', 'BM10tw2']):
        th = fixtures.adhoc('KellyEFF', formulas, {'ImH': 8.0, 'ReH': -3.0, 'ImHt': 2.0, 'ReE': 1.5})
        cand = [p for p in allp if hasattr(th, p.observable)]
        pools.append(('adhoc-' + formulas, th, rng.sample(cand, min(25 if quick else 80, len(cand)))))

    ntrials = 30 if quick else 250
    lines, meta = [], []
    for name, th, pool in pools:
        pool = [p for p in pool if getattr(p, 'err', 0)]
        preds = {}
        for ovr in (None, 'override'):
            kw = {}
            if ovr:
                free = [k for k in th.parameters if isinstance(th.parameters[k], float)
                        and k in ('Nv', 'rv', 'C', 'ImH', 'ReH', 'secs', 'ms2', 'bv')]
                if not free:
                    continue
                kw = {'parameters': {k: th.parameters[k] * (1 + 0.2 * rng.random()) + 0.01 for k in free[:2]}}
            try:
                pred = [float(th.predict(p, **kw)) for p in pool]
            except Exception as e:   # the theory cannot describe one of the points: skip the pool
                rep.notes.append('pool %s skipped: %r' % (name, e))
                continue
            for _ in range(ntrials if not ovr else max(3, ntrials // 6)):
                n = rng.choice([0, 1, 2, 3, 5, 8, 13])
                idx = [rng.randrange(len(pool)) for _ in range(n)]     # multiset: repeats allowed
                asym = rng.random() < 0.5
                pts = [pool[i] for i in idx]
                try:
                    chi = float(th.chisq(g.DataSet(pts), asym=asym, **kw))
                    impl = [chi]
                except Exception as e:
                    impl = 'EXC:' + type(e).__name__
                flo = []
                for i in idx:
                    p = pool[i]
                    flo += [pred[i], p.val, p.err, getattr(p, 'errplus', p.err), getattr(p, 'errminus', p.err)]
                lines.append('c10.chisq %d %s' % (asym, ' '.join(map(f2hex, flo))))
                meta.append(dict(kind='chisq', theory=name, asym=asym, override=kw.get('parameters'),
                                 points=[(getattr(pool[i], 'id', None), i) for i in idx],
                                 preds=[pred[i] for i in idx], impl=impl, th=th, pts=pts, kw=kw))
                rep.hist('chisq.n', n)
                rep.hist('chisq.asym', asym)
                rep.hist('chisq.theory', name)
            if not ovr:
                for i, p in enumerate(pool[:10]):
                    try:
                        impl = [float(th.pull(p))]
                    except Exception as e:
                        impl = 'EXC:' + type(e).__name__
                    lines.append('c10.pull ' + ' '.join(map(f2hex, [
                        pred[i], p.val, p.err, getattr(p, 'errplus', p.err), getattr(p, 'errminus', p.err)])))
                    meta.append(dict(kind='pull', theory=name, point=(getattr(p, 'id', None), i),
                                     preds=[pred[i]], impl=impl, th=th, pts=[p], kw={}))
    out = common.run_driver(lines)
    for line, m, o in zip(lines, meta, out):
        toks = o.split()
        model = [hex2f(t) for t in toks] if o != 'bad-op' else None
        sample = {k: m[k] for k in m if k not in ('th', 'pts', 'kw', 'preds')}
        rep.case(m['kind'], line, nontrivial=len(m['pts']) > 0, sample=sample)
        bad = None
        if model is None or isinstance(m['impl'], str):
            bad = 'impl=%s model=%s' % (m['impl'], o[:40])
        else:
            scale = sum(x * x for x in model[1:]) if m['kind'] == 'chisq' else 0.0
            if relerr(m['impl'][0], model[0], scale * 1e-3) > TOL:
                bad = 'impl=%r model=%r' % (m['impl'][0], model[0])
        if not bad:
            continue
        # failing-input search: evaluate the property on the real code alone
        th, pts, kw = m['th'], m['pts'], m['kw']
        direct = None
        try:
            pulls = []
            for p in pts:
                d = float(th.predict(p, **kw)) - p.val
                if m.get('asym'):
                    pulls.append(d / (p.errplus if d > 0 else p.errminus))
                else:
                    pulls.append(d / p.err)
            direct = math.fsum(x * x for x in pulls) if m['kind'] == 'chisq' else pulls[0]
        except Exception as e:
            direct = 'EXC:' + type(e).__name__
        impl0 = m['impl'][0] if not isinstance(m['impl'], str) else m['impl']
        confirmed = isinstance(direct, str) or isinstance(impl0, str) or relerr(impl0, direct) > 1e-9
        key = '%s/%s/%s' % (m['kind'], 'asym' if m.get('asym') else 'sym',
                            'exception' if isinstance(impl0, str) else 'value')
        rep.violation(key, '%s of theory %s on %d point(s): code returns %r, sum of squared pulls of its own '
                      'predictions is %r (%s)' % (m['kind'], m['theory'], len(pts), impl0, direct, bad),
                      dict(sample, preds=m['preds'], direct=direct, protocol_line=line),
                      found_input=confirmed)
    if not ok and not rep.violations:
        rep.violation('lean', 'Lean side of C10 no longer checks: ' + why, dict(reason=why), found_input=False)
    rep.assumptions += ['Theory.predict is taken as the prediction (the theory is a parameter of the model)',
                        'float summation compared within 1e-11 relative (theorems are over ℝ)']
    return rep.finish(level='proof', checker_cmd='lake build Props.C10; #print axioms; gepdriver c10.* vs Theory.chisq/pull',
                      trusted=['Lean 4.33 kernel', 'Scalar/ChiSq.lean.in instantiated at Float and ℝ (same text)',
                               'harness/props/C10.py'])


def replay(path):
    import json
    print(open(path).read()[:2000])
    return 0

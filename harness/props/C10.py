"""C10 — chi-square is the sum of squared pulls: additive and order-independent.

Lean: Props/C10.lean (ℝ) over Scalar/ChiSq.lean.in; the Float instantiation of the same text is
run by the driver.  Correspondence: Theory.chisq / Theory.pull on shipped and ad-hoc theories over
random sub-multisets, permutations and re-slicings of the bundled points, asym ∈ {F,T}, with and
without parameter overrides, versus the model fed with Theory.predict's values.

Every case is ALSO compared with the property written out in Python list arithmetic (sum of squared pulls of
the predictions, independent of the Lean driver): that reference decides found_input, and it keeps the check
running when the model driver is unavailable.  The collection of points reaches Theory.chisq in every form the
API accepts (anything iterable): DataSet, list, tuple, DataSet sum / slice, and one-shot iterators (generator
expression, iter(), reversed(), itertools.chain / islice, filter, map) - the form rotates per pool, so each pool
sees each form in every run.  Every pool contains points with errplus != errminus (bundled ones where the
theory's points have them, and copies of pool points whose upper/lower uncertainties are set apart).
"""
import itertools
import math

import common
import fixtures
from common import f2hex, hex2f, relerr

TOL = 1e-11

# how the multiset `pts` (a list) is handed to Theory.chisq; (name, one-shot iterator?, maker)
def _forms(g):
    return [
        ('DataSet', False, lambda pts: g.DataSet(pts)),
        ('generator', True, lambda pts: (p for p in pts)),
        ('list', False, lambda pts: list(pts)),
        ('iter', True, lambda pts: iter(g.DataSet(pts))),
        ('tuple', False, lambda pts: tuple(pts)),
        ('chain', True, lambda pts: itertools.chain(pts[:len(pts) // 2], g.DataSet(pts[len(pts) // 2:]))),
        ('DataSet-sum', False, lambda pts: (g.DataSet(pts[:len(pts) // 2]) + g.DataSet(pts[len(pts) // 2:])) if pts else g.DataSet(pts)),
        ('reversed', True, lambda pts: reversed(pts[::-1])),
        ('DataSet-slice', False, lambda pts: g.DataSet(pts[-1:] + pts)[1:] if pts else g.DataSet(pts)),
        ('islice', True, lambda pts: itertools.islice(pts[-1:] + pts, 1 if pts else 0, None)),
        ('filter', True, lambda pts: filter(lambda p: True, pts)),
        ('map', True, lambda pts: map(lambda p: p, pts)),
    ]


def is_asym(p):
    return getattr(p, 'errplus', getattr(p, 'err', None)) != getattr(p, 'errminus', getattr(p, 'err', None))


def py_pulls(flo, asym):
    """the property in list arithmetic: pulls of (prediction, value, err, errplus, errminus) quintuples"""
    out = []
    for k in range(0, len(flo), 5):
        pred, val, err, ep, em = flo[k:k + 5]
        d = pred - val
        out.append(d / ((ep if d > 0 else em) if asym else err))
    return out


def with_asym(rng, th, pool, source, rep, name, nmin=2):
    """make sure the pool holds points with errplus != errminus: bundled ones of the same source first, then copies of
    pool points whose upper / lower uncertainties are set apart (the values and kinematics stay the bundled ones)"""
    have = [p for p in pool if is_asym(p)]
    more = [p for p in source if is_asym(p) and getattr(p, 'err', 0) and not any(p is q for q in pool)]
    rng.shuffle(more)
    add = []
    for p in more:
        if len(have) + len(add) >= nmin:
            break
        try:
            float(th.predict(p))       # only points the theory can describe (a pool with one that raises is skipped as a whole)
            add.append(p)
        except Exception:
            pass
    rep.hist('pool.asym.bundled', len(have) + len(add))
    k = 0
    base = [p for p in pool if getattr(p, 'err', 0)]
    while len(have) + len(add) < nmin and base:
        c = base[k % len(base)].copy()
        k += 1
        c.errplus = c.err * rng.choice([1.25, 1.5, 2.0])
        c.errminus = c.err * rng.choice([0.5, 0.75, 0.9])
        add.append(c)
        rep.hist('pool.asym.synthetic', name)
    return pool + add


def run(rep):
    import gepard as g
    rng = rep.rng
    ok, why = common.lean_side(rep, 'C10')
    quick = rep.tier == 'quick'
    pools = []
    for name, th, pts in fixtures.shipped():
        if quick and name in ('AFKM12',):
            continue
        k = {'KM09a': 36, 'KM09b': 40}.get(name, 14 if quick else 60)
        pool = rng.sample(pts, min(k, len(pts)))
        pools.append((name, th, with_asym(rng, th, pool, pts, rep, name)))
    # ad-hoc combinations: constant CFFs with each formula set, on DVCS points carrying phi or FTn
    allp = [p for p in fixtures.dvcs_points() if getattr(p, 'observable', '') in
            ('XUU', 'XLU', 'ALU', 'AC', 'BSA', 'XUUw', 'XLUw') and 't' in p]
    for formulas in (['BMK', 'BM10'] if quick else ['BMK', 'hotfixedBMK', 'BM10ex', 'BM10', 'BM10tw2']):
        th = fixtures.adhoc('KellyEFF', formulas, {'ImH': 8.0, 'ReH': -3.0, 'ImHt': 2.0, 'ReE': 1.5})
        cand = [p for p in allp if hasattr(th, p.observable)]
        pools.append(('adhoc-' + formulas, th, with_asym(rng, th, rng.sample(cand, min(25 if quick else 80, len(cand))), cand, rep, 'adhoc-' + formulas)))

    ntrials = 30 if quick else 250
    forms = _forms(g)
    lines, meta = [], []
    for pi, (name, th, pool) in enumerate(pools):
        pool = [p for p in pool if getattr(p, 'err', 0)]
        asym_idx = [i for i, p in enumerate(pool) if is_asym(p)]
        rep.hist('pool.asym.points', len(asym_idx))
        for ovr in (None, 'override'):
            kw = {}
            if ovr:
                free = [k for k in th.parameters if isinstance(th.parameters[k], float)
                        and k in ('Nv', 'rv', 'C', 'ImH', 'ReH', 'secs', 'ms2', 'bv')]
                if not free:
                    continue
                kw = {'parameters': {k: th.parameters[k] * (1 + 0.2 * rng.random()) + 0.01 for k in free[:2]}}
            try:
                pred = [float(th.predict(p, **kw)) for p in pool]
            except Exception as e:   # the theory cannot describe one of the points: skip the pool
                rep.notes.append('pool %s skipped: %r' % (name, e))
                continue
            ntr = ntrials if not ovr else max(3, ntrials // 6)
            for tr in range(ntr):
                n = rng.choice([0, 1, 2, 3, 5, 8, 13])
                idx = [rng.randrange(len(pool)) for _ in range(n)]     # multiset: repeats allowed
                asym = rng.random() < 0.5
                if tr < len(forms):
                    # the first round over the delivery forms: non-empty, alternately asym, and with a point whose upper and
                    # lower uncertainties differ (so that every form and the errplus/errminus branch are exercised in every pool)
                    n = max(n, 2)
                    idx = [rng.randrange(len(pool)) for _ in range(n)]
                    asym = tr % 2 == 0
                if asym_idx and n and (tr < len(forms) or rng.random() < 0.5):
                    idx[rng.randrange(n)] = rng.choice(asym_idx)
                # the delivery form rotates (offset per pool and override): every pool sees every form in every run
                fname, oneshot, make = forms[(tr + pi + (5 if ovr else 0)) % len(forms)]
                pts = [pool[i] for i in idx]
                try:
                    chi = float(th.chisq(make(list(pts)), asym=asym, **kw))
                    impl = [chi]
                except Exception as e:
                    impl = 'EXC:' + type(e).__name__
                flo = []
                for i in idx:
                    p = pool[i]
                    flo += [pred[i], p.val, p.err, getattr(p, 'errplus', p.err), getattr(p, 'errminus', p.err)]
                lines.append('c10.chisq %d %s' % (asym, ' '.join(map(f2hex, flo))))
                meta.append(dict(kind='chisq', theory=name, asym=asym, override=kw.get('parameters'), delivered_as=fname, oneshot=oneshot,
                                 points=[(getattr(pool[i], 'id', None), i) for i in idx], flo=flo,
                                 preds=[pred[i] for i in idx], impl=impl, th=th, pts=pts, kw=kw))
                rep.hist('chisq.n', n)
                rep.hist('chisq.asym', asym)
                rep.hist('chisq.theory', name)
                rep.hist('chisq.delivered_as', fname)
                if asym:
                    rep.hist('chisq.asym.points-with-errplus!=errminus', sum(1 for p in pts if is_asym(p)))
            if not ovr:
                for i, p in list(enumerate(pool))[:10]:
                    try:
                        impl = [float(th.pull(p))]
                    except Exception as e:
                        impl = 'EXC:' + type(e).__name__
                    flo = [pred[i], p.val, p.err, getattr(p, 'errplus', p.err), getattr(p, 'errminus', p.err)]
                    lines.append('c10.pull ' + ' '.join(map(f2hex, flo)))
                    meta.append(dict(kind='pull', theory=name, point=(getattr(p, 'id', None), i), flo=flo,
                                     preds=[pred[i]], impl=impl, th=th, pts=[p], kw={}))
    # ---- the Lean model (Float instantiation of the text the theorems are about) ----
    try:
        out = common.run_driver(lines)
    except common.ModelUnavailable as ex:
        out = [None] * len(lines)
        rep.violation('model-unavailable', 'the Lean model driver of C10 could not be run (%s): every case below is compared with the '
                      'sum of squared pulls in Python list arithmetic only' % str(ex)[:300], dict(reason=str(ex)[:300]), found_input=False)
    for line, m, o in zip(lines, meta, out):
        model = None
        if o is not None and o != 'bad-op':
            model = [hex2f(t) for t in o.split()]
        sample = {k: m[k] for k in m if k not in ('th', 'pts', 'kw', 'preds', 'flo')}
        rep.case(m['kind'], (line, m.get('delivered_as')), nontrivial=len(m['pts']) > 0, sample=sample)
        # the property in Python list arithmetic on the predictions taken before (independent of the driver)
        pulls = py_pulls(m['flo'], bool(m.get('asym')))
        pyref = math.fsum(x * x for x in pulls) if m['kind'] == 'chisq' else pulls[0]
        scale = math.fsum(x * x for x in pulls) if m['kind'] == 'chisq' else 0.0
        bad = modelbad = None
        if isinstance(m['impl'], str):
            bad = 'impl=%s' % m['impl']
        elif relerr(m['impl'][0], pyref, scale * 1e-3) > TOL:
            bad = 'impl=%r, list arithmetic on the predictions gives %r' % (m['impl'][0], pyref)
        if o is not None:
            if model is None:
                modelbad = 'model=%s' % o[:40]
            elif relerr(pyref, model[0], scale * 1e-3) > TOL:
                modelbad = 'model=%r, list arithmetic on the same numbers gives %r' % (model[0], pyref)
            elif not bad and relerr(m['impl'][0], model[0], scale * 1e-3) > TOL:
                bad = 'impl=%r model=%r' % (m['impl'][0], model[0])
        if modelbad and not bad:
            rep.violation('model/%s' % m['kind'], '%s: the Lean model and the sum of squared pulls in Python disagree while the code agrees '
                          'with the latter (%s)' % (m['kind'], modelbad), dict(sample, protocol_line=line), found_input=False)
            continue
        if not bad:
            continue
        # failing-input search: evaluate the property on the real code alone (fresh predictions, the points as a plain list)
        th, pts, kw = m['th'], m['pts'], m['kw']
        direct = None
        try:
            pulls = []
            for p in pts:
                d = float(th.predict(p, **kw)) - p.val
                if m.get('asym'):
                    pulls.append(d / (getattr(p, 'errplus', p.err) if d > 0 else getattr(p, 'errminus', p.err)))
                else:
                    pulls.append(d / p.err)
            direct = math.fsum(x * x for x in pulls) if m['kind'] == 'chisq' else pulls[0]
        except Exception as e:
            direct = 'EXC:' + type(e).__name__
        impl0 = m['impl'][0] if not isinstance(m['impl'], str) else m['impl']
        # a failing input is claimed only when the harness's own evaluation of the property succeeded and differs
        confirmed = (not isinstance(direct, str)) and (isinstance(impl0, str) or relerr(impl0, direct, scale * 1e-3) > 1e-9)
        key = '%s/%s/%s' % (m['kind'], 'asym' if m.get('asym') else 'sym',
                            'exception' if isinstance(impl0, str) else 'value')
        if m.get('oneshot'):
            key += '/one-shot-iterable'
        rep.violation(key, '%s of theory %s on %d point(s)%s: code returns %r, sum of squared pulls of its own '
                      'predictions is %r (%s)' % (m['kind'], m['theory'], len(pts),
                                                  ' handed over as %s' % m['delivered_as'] if m.get('delivered_as') else '',
                                                  impl0, direct, bad),
                      dict(sample, preds=m['preds'], direct=direct, protocol_line=line),
                      found_input=confirmed)
    if not ok and not rep.violations:
        rep.violation('lean', 'Lean side of C10 no longer checks: ' + why, dict(reason=why), found_input=False)
    rep.assumptions += ['Theory.predict is taken as the prediction (the theory is a parameter of the model)',
                        'any iterable of DataPoints is a legal collection of measurements (Theory.chisq documents "points"; it iterates); '
                        'DataPoint copies with errplus/errminus set apart are legal measurements',
                        'float summation compared within 1e-11 relative (theorems are over ℝ)']
    return rep.finish(level='proof', checker_cmd='lake build Props.C10; #print axioms; gepdriver c10.* vs Theory.chisq/pull',
                      trusted=['Lean 4.33 kernel', 'Scalar/ChiSq.lean.in instantiated at Float and ℝ (same text)',
                               'harness/props/C10.py'])


def replay(path):
    import json
    print(open(path).read()[:2000])
    return 0

"""C06 — alternative DVCS formula sets agree in the Bjorken limit and respect parity.

Lean: Props/C06.lean over the regenerated Gen/BmkR.lean — LP squared-DVCS bilinearity (BM10, BM10tw2;
refuted with a witness for BM10ex), exact relations between the squared-DVCS terms of BMK / hotfixedBMK /
BM10 / BM10tw2 and the 1/Q² bound they imply.
Correspondence: all ~250 translated coefficient functions, the T-terms and the XS assembly of all five
sets versus the real code (1e-10) — the tie that makes a leading-power error in any single coefficient
visible.  Oracle streams: (N-version) pairwise differences of the sets at Q² ∈ {1e3, 1e4, 1e5}, fixed
xB, t, y, φ, must stay below 60/Q² of the scale; (lp-reference) the twist-two longitudinal-target squared-DVCS
term of BM10 / BM10tw2 against the formula of the papers re-typed here (the LP N-version comparison has no
other independent member: BM10tw2 inherits BM10's coefficient and BM10ex carries a recorded defect); LP
bilinearity on the real code.

The recorded defect of BM10ex (known_findings.json: its C^DVCS_LP is a copy of the unpolarised C^DVCS_unp) is
matched by SIGNATURE: a disagreement is filed under the known keys only when BM10ex's value equals what that
cause predicts (computed here from a re-typed BM10 (2.22)) and, for the pairs, the partner agrees with the
re-typed reference.  Anything else gets its own key.
"""
import itertools
import math

import bmkcommon as B
import common

# |A - B| / scale <= BOUND / Q2.  Measured on the pinned tree: <= 11.6 over the 400 kinematic points of the first survey,
# 27.8 over 35,000 samples of the harness audit (TINTunp, BMK vs the BM10 family, xB -> 0.6): the margin is about 2x
BOUND = 60.0
TOL_REF = 1e-10     # code vs re-typed formula, relative to the sum of the absolute values of the terms


def point(xB, y, t, phi, Q2, lam, chg):
    from gepard.constants import Mp
    E = Q2 / (2 * Mp * xB * y)
    return dict(xB=xB, Q2=Q2, t=t, phi=phi, in1energy=E, exptype='fixed target', process='ep2epgamma',
                in1charge=chg, in1polarization=lam, in2particle='p')


# ------------------------------------------------------------------------------------------------
# independent expressions (typed from the papers / the formula comments, never by calling the method under test)
# ------------------------------------------------------------------------------------------------

def lp_dvcs_reference(m, xB, t, Q2, y, eps2, lam):
    """twist-two |T_DVCS|² for the longitudinally polarised target (effective CFFs zero, unit target polarisation):
         T = 1/(y² Q²) · c0_LP,      c0_LP = 2 λ y (2−y)/√(1+ε²) · C_LP(F, F*)                    [BM10 (2.17), (2.20)]
         C_LP = { 4(1−xB)(H H̃* + H̃ H*) − xB²(H Ẽ* + Ẽ H* + H̃ E* + E H̃*)
                  − xB (xB²/2 + (2−xB) t/(4M²)) (E Ẽ* + Ẽ E*) } / (2−xB)²            [BMK hep-ph/0112108 (68) = BM10 (2.23) at leading power]
       in real components (X Y* + Y X* = 2 (ReX ReY + ImX ImY)).  Returns (value, sum of |terms|)."""
    from gepard.constants import Mp2
    c_ee = 2 * xB * (xB ** 2 / 2 + (2 - xB) * t / (4 * Mp2))
    prods = [(8 * (1 - xB), 'H', 'Ht'), (-2 * xB ** 2, 'H', 'Et'), (-2 * xB ** 2, 'Ht', 'E'), (-c_ee, 'E', 'Et')]
    pre = 2 * lam * y * (2 - y) / math.sqrt(1 + eps2) / (2 - xB) ** 2 / (y * y * Q2)
    val = mag = 0.0
    for c, a, b in prods:
        for part in ('Re', 'Im'):
            val += c * m[part + a] * m[part + b]
            mag += abs(c * m[part + a] * m[part + b])
    return float(pre * val), float(abs(pre) * mag)


def ccal_dvcs_unp_exact(L, R, xB, Q2, t, eps2):
    """C^DVCS_unp(F_L, F_R*) of BM10 (2.22) with the power-suppressed terms kept (the expression in the comment
    'BM10 (2.22), from DM's notebook'), re-typed term by term; L, R: dicts H, E, Ht, Et of complex numbers (R enters conjugated)"""
    from gepard.constants import Mp2
    H, E, Ht, Et = L['H'], L['E'], L['Ht'], L['Et']
    Hc, Ec, Htc, Etc = (R[k].conjugate() for k in ('H', 'E', 'Ht', 'Et'))
    A = Q2 + t * xB
    D = Q2 * (2 - xB) + t * xB
    inner = (4 * (1 - xB) * H * Hc
             + 4 * (1 - xB + eps2 * (2 * Q2 + t) / (4 * A)) * Ht * Htc
             - (Q2 + t) ** 2 * xB ** 2 / (Q2 * A) * (H * Ec + E * Hc)
             - Q2 * xB ** 2 / A * (Ht * Etc + Et * Htc)
             - ((Q2 + t) ** 2 * xB ** 2 / (Q2 * A) + t * D ** 2 / (4 * Mp2 * Q2 * A)) * E * Ec
             - Q2 * t * xB ** 2 / (4 * Mp2 * A) * Et * Etc)
    return Q2 * A * inner / D ** 2


def cffs_of(m, eff=False):
    s = 'eff' if eff else ''
    return {k: complex(m.get('Re' + k + s, 0.0), m.get('Im' + k + s, 0.0)) for k in ('H', 'E', 'Ht', 'Et')}


def bm10ex_lp_under_recorded_cause(m, kin):
    """what BM10ex.TDVCS2LP returns if — as recorded in known_findings.json — its C^DVCS_LP is the unpolarised C^DVCS_unp:
    the LP harmonics of BM10 (2.20), (2.21) assembled here with the re-typed (2.22) in the place of (2.23)"""
    lam, y, e2, xB, Q2, t = kin.in1polarization, kin.y, kin.eps2, kin.xB, kin.Q2, kin.t
    F, Feff = cffs_of(m), cffs_of(m, eff=True)
    K = math.sqrt(max(kin.K2, 0.0))
    c0 = 2 * lam * y * (2 - y) / math.sqrt(1 + e2) * ccal_dvcs_unp_exact(F, F, xB, Q2, t, e2).real
    pp = -8 * K / (2 - xB) / (1 + e2)
    mixed = ccal_dvcs_unp_exact(Feff, F, xB, Q2, t, e2)
    c1 = pp * (-lam * y * math.sqrt(1 + e2)) * mixed.real
    s1 = pp * (2 - y) * mixed.imag
    return float((c0 + c1 * math.cos(kin.phi) + s1 * math.sin(kin.phi)) / (y * y * Q2))


def explained_by_recorded_cause(m, kin, value, scale):
    """BM10ex's TDVCS2LP equals the value the recorded cause predicts (1e-9 of the scale)"""
    try:
        pred = bm10ex_lp_under_recorded_cause(m, kin)
    except Exception:                # a point without the prepared fields: no signature, no match
        return False, None
    return abs(value - pred) <= 1e-9 * max(abs(scale), abs(pred), 1e-300), pred


def lp_reference_case(rep, fs, m, kin, value, where):
    """BM10 / BM10tw2: TDVCS2LP (effective CFFs zero) against the re-typed formula; True when it agrees"""
    ref, mag = lp_dvcs_reference(m, kin.xB, kin.t, kin.Q2, kin.y, kin.eps2, kin.in1polarization)
    dev = abs(value - ref) / max(mag, 1e-300)
    w = rep.coverage.setdefault('worst_lp_reference_dev', 0.0)
    rep.coverage['worst_lp_reference_dev'] = max(w, dev if dev == dev else float('inf'))
    if dev <= TOL_REF:
        return True
    rep.violation('lp-reference/%s/TDVCS2LP' % fs,
                  'TDVCS2LP of %s = %r but the twist-two formula 1/(y²Q²)·2λy(2−y)/√(1+ε²)·C_LP with C_LP = {4(1−xB)(HH̃*+H̃H*) − xB²(HẼ*+ẼH*+H̃E*+EH̃*) '
                  '− xB(xB²/2+(2−xB)t/4M²)(EẼ*+ẼE*)}/(2−xB)² gives %r (ratio %.6g; xB=%.4g, Q2=%.4g, t=%.4g, y=%.4g, phi=%.4g, helicity %+d; %s)' % (
                      fs, value, ref, value / ref if ref else float('nan'), kin.xB, kin.Q2, kin.t, kin.y, kin.phi, kin.in1polarization, where),
                  dict(set=fs, term='TDVCS2LP', xB=kin.xB, Q2=kin.Q2, t=kin.t, y=kin.y, phi=kin.phi, helicity=kin.in1polarization, model=m,
                       code=value, formula=ref))
    return False


# ------------------------------------------------------------------------------------------------
# streams
# ------------------------------------------------------------------------------------------------

def nversion(rep, rng, n):
    import gepard as g
    from gepard.constants import Mp2
    for trial in range(n):
        xB = rng.uniform(0.01, 0.6)
        y = rng.uniform(0.05, 0.85)
        phi = rng.uniform(0, 2 * math.pi)
        lam, chg = rng.choice([-1, 1]), rng.choice([-1, 1])
        m = B.random_m(rng, with_eff=False)
        tmin3 = g.tmin(1e3, xB, 4 * xB ** 2 * Mp2 / 1e3)
        t = rng.uniform(-1, min(tmin3, -1e-3) - 1e-3)
        vals = {}
        replay = dict(xB=xB, y=y, t=t, phi=phi, Q2=[1e3, 1e4, 1e5], helicity=lam, charge=chg, model=m)
        try:
            for Q2 in (1e3, 1e4, 1e5):
                for fs in B.FORMULA_SETS:
                    th = B.theory(fs, m)
                    pt, kin = B.prepared(point(xB, y, t, phi, Q2, lam, chg))
                    vals[(fs, Q2, 'TDVCS2unp')] = float(th.TDVCS2unp(kin))
                    vals[(fs, Q2, 'TINTunp')] = float(th.TINTunp(kin))
                    vals[(fs, Q2, 'scale')] = 0.1 * math.sqrt(abs(float(th.TBH2unp(kin)) * float(th.TDVCS2unp(kin))))
                    if fs in B.LP_SETS:
                        vals[(fs, Q2, 'TDVCS2LP')] = float(th.TDVCS2LP(kin))
                        vals[(fs, Q2, 'TINTLP')] = float(th.TINTLP(kin))
                        if fs == 'BM10ex':
                            vals[(fs, Q2, 'explained')] = explained_by_recorded_cause(m, kin, vals[(fs, Q2, 'TDVCS2LP')],
                                                                                      vals[(fs, Q2, 'TDVCS2unp')])
                        else:
                            rep.case('lp-reference', (fs, trial, Q2))
                            vals[(fs, Q2, 'agrees-with-formula')] = lp_reference_case(rep, fs, m, kin, vals[(fs, Q2, 'TDVCS2LP')],
                                                                                      'N-version stream')
        except Exception as e:
            # a failing input of the property only when the package itself raised; a fault of the harness's own work is re-raised
            if not B.in_real_code(e):
                raise
            rep.violation('nversion/exception/' + type(e).__name__, 'evaluation raised %r' % (e,), replay)
            continue
        rep.case('nversion', (trial, xB, y), sample=dict(xB=xB, y=y, t=t, phi=phi) if trial < 2 else None)
        for a, b in itertools.combinations(B.FORMULA_SETS, 2):
            for term in ('TDVCS2unp', 'TINTunp', 'TDVCS2LP', 'TINTLP'):
                if (a, 1e3, term) not in vals or (b, 1e3, term) not in vals:
                    continue
                for Q2 in (1e3, 1e4, 1e5):
                    A, Bv = vals[(a, Q2, term)], vals[(b, Q2, term)]
                    sc = max(abs(A), abs(Bv), vals[(a, Q2, 'scale')], 1e-300)
                    r = abs(A - Bv) / sc
                    if r * Q2 > BOUND:
                        pair = '%s-%s' % (a, b)
                        key = 'bjorken/%s/%s' % (term, pair)
                        why = ''
                        if term == 'TDVCS2LP' and 'BM10ex' in (a, b):
                            # the recorded defect of BM10ex: only when BM10ex's value IS what the recorded cause predicts and the
                            # partner IS the re-typed twist-two formula; any other LP disagreement of these pairs is a new one
                            other = b if a == 'BM10ex' else a
                            expl, pred = vals[('BM10ex', Q2, 'explained')]
                            if not (expl and vals[(other, Q2, 'agrees-with-formula')]):
                                key = 'bjorken-unexplained/%s/%s' % (term, pair)
                                why = (' — NOT the recorded defect of BM10ex: its value %r %s the value %r that a C_LP equal to C_unp gives, %s %s '
                                       'the re-typed formula' % (vals[('BM10ex', Q2, term)], 'equals' if expl else 'differs from', pred, other,
                                                                 'agrees with' if vals[(other, Q2, 'agrees-with-formula')] else 'differs from'))
                        rep.violation(key,
                                      '%s of %s and %s differ by %.3g of the scale at Q2=%g (xB=%.4g, t=%.4g, y=%.4g, phi=%.4g): '
                                      '%r vs %r; 1/Q2 convergence requires <= %.3g%s' % (term, a, b, r, Q2, xB, t, y, phi, A, Bv, BOUND / Q2, why),
                                      dict(term=term, sets=[a, b], Q2=Q2, xB=xB, t=t, y=y, phi=phi, helicity=lam, charge=chg, model=m,
                                           values=[A, Bv]))
                        break


def lp_reference(rep, rng, n):
    """BM10 / BM10tw2 at physical kinematics of any Q² (fixed target and collider), twist-two CFFs: TDVCS2LP against the re-typed
    formula.  (The formula is the leading-power one: these two sets are DEFINED by it, at every Q².)"""
    for i in range(n):
        fs = ['BM10', 'BM10tw2'][i % 2]
        m = B.random_m(rng, with_eff=False)
        if i % 5 == 0:      # single products switched on alone: each coefficient of C_LP seen in isolation
            keep = [('H', 'Ht'), ('H', 'Et'), ('Ht', 'E'), ('E', 'Et')][(i // 5) % 4]
            for k in list(m):
                if k not in ('F1', 'F2') and k[2:] not in keep:
                    m[k] = 0.0
        kw = B.random_kinematics(rng)
        kw['in1polarization'] = rng.choice([-1, 1])
        th = B.theory(fs, m)
        pt, kin = B.prepared(kw)
        try:
            v = float(th.TDVCS2LP(kin))
        except Exception as e:
            if not B.in_real_code(e):
                raise
            rep.violation('lp-reference/exception/' + type(e).__name__, '%s.TDVCS2LP raised %r' % (fs, e), dict(set=fs, kinematics=kw, model=m))
            continue
        rep.case('lp-reference', (fs, i, kw['xB'], kw['Q2']), sample=dict(set=fs, kinematics=kw, value=v) if i < 2 else None)
        lp_reference_case(rep, fs, m, kin, v, 'lp-reference stream')


def parity(rep, rng, n):
    for i in range(n):
        fs = rng.choice(B.LP_SETS)
        which = rng.choice(['zeroVec', 'zeroAx'])
        m = B.random_m(rng, with_eff=rng.random() < 0.5)
        for k in list(m):
            isax = k.endswith('t') or k.endswith('teff')
            if k in ('F1', 'F2'):
                continue
            if (which == 'zeroAx' and isax) or (which == 'zeroVec' and not isax):
                m[k] = 0.0
        th = B.theory(fs, m)
        kw = B.random_kinematics(rng)
        kw['in1polarization'] = rng.choice([-1, 1])
        pt, kin = B.prepared(kw)
        try:
            v = float(th.TDVCS2LP(kin))
            ref = abs(float(th.TDVCS2unp(kin))) + 1e-300
        except Exception as e:
            if not B.in_real_code(e):
                raise
            rep.violation('parity/exception/' + type(e).__name__, '%s.TDVCS2LP raised %r' % (fs, e), dict(set=fs, kinematics=kw, model=m))
            continue
        rep.case('parity', (fs, which, i), sample=dict(set=fs, which=which, value=v) if i < 3 else None)
        if abs(v) > 1e-12 * ref:
            key, why = 'parity/%s/TDVCS2LP' % fs, ''
            if fs == 'BM10ex':
                expl, pred = explained_by_recorded_cause(m, kin, v, ref)
                if not expl:
                    key = 'parity-unexplained/BM10ex/TDVCS2LP'
                    why = ' — NOT the recorded defect of BM10ex: a C_LP equal to C_unp would give %r' % (pred,)
            rep.violation(key,
                          'TDVCS2LP of %s = %r with all %s CFFs zero (TDVCS2unp = %r): not bilinear vector x axial%s' % (
                              fs, v, 'axial' if which == 'zeroAx' else 'vector', ref, why),
                          dict(set=fs, which=which, kinematics=kw, model=m, value=v))


def reuse_stream(rep, rng, n):
    """a prepared point evaluated with one set of CFFs and then with another must give, for the second, what a
    fresh copy of the point gives (the terms are functions of the CFF values and the kinematics only)"""
    for i in range(n):
        fs = rng.choice(B.FORMULA_SETS)
        kw = B.random_kinematics(rng)
        kw['in1polarization'] = rng.choice([-1, 1])
        pt, kin = B.prepared(kw)
        m1, m2 = B.random_m(rng), B.random_m(rng)
        th1, th2 = B.theory(fs, m1), B.theory(fs, m2)
        terms = ['TINTunp', 'TDVCS2unp', 'TBH2unp'] + (['TINTLP', 'TDVCS2LP'] if fs in B.LP_SETS else [])
        try:
            for tname in terms:
                getattr(th1, tname)(kin)
            second = {tname: float(getattr(th2, tname)(kin)) for tname in terms}
            pt2, fresh = B.prepared(kw)
            ref = {tname: float(getattr(th2, tname)(fresh)) for tname in terms}
        except Exception as e:
            if not B.in_real_code(e):
                raise
            rep.violation('reuse/exception/' + type(e).__name__, '%s raised %r' % (fs, e), dict(set=fs, kinematics=kw, first_model=m1, second_model=m2))
            continue
        rep.case('reuse', (fs, i), sample=dict(set=fs) if i < 2 else None)
        for tname in terms:
            if second[tname] != ref[tname]:
                rep.violation('reuse/%s/%s' % (fs, tname),
                              '%s.%s on a prepared point that had been evaluated with other CFF values before gives %r, on a fresh '
                              'copy of the point %r' % (fs, tname, second[tname], ref[tname]),
                              dict(set=fs, term=tname, kinematics=kw, first_model=m1, second_model=m2))
                break


def provider_stream(rep, rng, n):
    """The property quantifies over ARBITRARY CFF and form-factor values: the formula sets can depend on the model only
    through the values ReH(pt) … ImEt(pt), F1(pt), F2(pt) it reports.  For a theory whose CFFs come from a real model block
    (hybrid Mellin-Barnes + dispersive, dispersive, Mellin-Barnes — with their own elastic form factors) every term of every
    formula set must equal the term of the constant-CFF theory fed with exactly those reported values.  (Seeded change
    C06-10: a formula set that takes its CFFs from `m.cff(pt)` when the model is a Mellin-Barnes one — for the hybrid blocks
    that is the sea part only.)"""
    import gepard as g
    import gepard.fits  # noqa: F401
    from gepard.constants import Mp2
    providers = [('hybrid-free-pole/KM15', (g.eff.KellyEFF, g.gpd.PWNormGPD, g.cff.HybridFreePoleCFF), dict(g.fits.par_KM15)),
                 ('hybrid-free-pole/KM10', (g.eff.DipoleEFF, g.gpd.PWNormGPD, g.cff.HybridFreePoleCFF), dict(g.fits.par_KM10)),
                 ('hybrid-fixed-pole/KM15', (g.eff.KellyEFF, g.gpd.PWNormGPD, g.cff.HybridFixedPoleCFF), dict(g.fits.par_KM15)),
                 ('dispersive/KM09a', (g.eff.DipoleEFF, g.cff.DispersionFixedPoleCFF), dict(g.fits.par_KM09a)),
                 ('mellin-barnes/AFKM12', (g.eff.KellyEFF, g.gpd.PWNormGPD, g.cff.MellinBarnesCFF), dict(g.fits.par_AFKM12))]
    names = ['ReH', 'ImH', 'ReE', 'ImE', 'ReHt', 'ImHt', 'ReEt', 'ImEt']
    terms = ['TBH2unp', 'TINTunp', 'TDVCS2unp']
    worst = 0.0
    for trial in range(n):
        label, bases, par = providers[trial % len(providers)]
        fs = B.FORMULA_SETS[(trial // len(providers)) % len(B.FORMULA_SETS)] if trial < 5 * len(providers) else rng.choice(B.FORMULA_SETS)
        xB = rng.uniform(0.02, 0.45)
        Q2 = 10 ** rng.uniform(0.4, 2.0)
        y = rng.uniform(0.1, 0.8)
        phi = rng.uniform(0, 2 * math.pi)
        lam, chg = rng.choice([-1, 1]), rng.choice([-1, 1])
        tm = g.tmin(Q2, xB, 4 * xB ** 2 * Mp2 / Q2)
        t = rng.uniform(-0.8, min(tm, -1e-3) - 1e-3)
        kw = point(xB, y, t, phi, Q2, lam, chg)
        info = dict(provider=label, set=fs, kinematics=kw, parameters=par)
        try:
            th = type('P_' + fs, bases + (getattr(g, fs),), {})()
            th.parameters.update(par)            # as gepard.fits does (some sets carry keys the blocks do not declare)
            pt, kin = B.prepared(kw)
            m = {nm: float(getattr(th, nm)(kin)) for nm in names}
            m['F1'], m['F2'] = float(th.F1(kin)), float(th.F2(kin))
            ref = B.theory(fs, m)
            todo = terms + (['TDVCS2LP', 'TINTLP'] if fs in B.LP_SETS else [])
            got = {tm_: float(getattr(th, tm_)(kin)) for tm_ in todo}
            want = {tm_: float(getattr(ref, tm_)(kin)) for tm_ in todo}
        except Exception as e:
            if not B.in_real_code(e):
                raise
            rep.violation('provider/exception/' + type(e).__name__, '%s with %s raised %r' % (fs, label, e), info)
            continue
        rep.case('provider', (label, fs, trial), sample=dict(info, reported=m) if trial < 3 else None)
        rep.hist('provider.model', label)
        rep.hist('provider.set', fs)
        scale = max(abs(want['TBH2unp']), abs(want['TDVCS2unp']), 1e-300)
        for tm_ in todo:
            d = abs(got[tm_] - want[tm_]) / max(abs(want[tm_]), 1e-6 * scale, 1e-300)
            worst = max(worst, d)
            if d > 1e-9:
                rep.violation('provider/%s/%s' % (label.split('/')[0], tm_),
                              '%s of %s with the CFFs of the model block %s is %r, but the same formula set fed with the values that '
                              'model reports (ReH(pt) … ImEt(pt), F1, F2 = %s) gives %r (relative difference %.3g): the formula set does '
                              'not see the CFF values the model reports (xB=%.4g, t=%.4g, Q2=%.4g, y=%.4g, phi=%.4g)'
                              % (tm_, fs, label, got[tm_], {k: round(v, 6) for k, v in m.items()}, want[tm_], d, xB, t, Q2, y, phi),
                              dict(info, term=tm_, reported=m, got=got[tm_], want=want[tm_]))
                break
    rep.coverage['provider_worst_relative_difference'] = worst


def run(rep):
    rng = rep.rng
    ok, why = common.lean_side(rep, 'C06')
    quick = rep.tier == 'quick'
    broken = B.entry_correspondence(rep, rng, 60 if quick else 1500)
    nversion(rep, rng, (15 if quick else 600) * (3 if (broken or not ok) else 1))
    parity(rep, rng, 60 if quick else 2000)
    reuse_stream(rep, rng, 25 if quick else 600)
    lp_reference(rep, rng, 60 if quick else 2000)
    provider_stream(rep, rng, 30 if quick else 600)
    for kind, fset, e, v, o, kw, m in broken[:5]:
        if not rep.violations:
            rep.violation('model/%s/%s/%s' % (kind, fset, e), 'translated model and code disagree on %s.%s: code %r model %r' % (fset, e, v, o),
                          dict(set=fset, entry=e, kinematics=kw, model=m), found_input=False)
    if not ok and not rep.violations:
        rep.violation('lean', 'Lean side of C06 no longer checks: ' + why, dict(reason=why), found_input=False)
    rep.notes.append('oracle streams: N-version comparison of the five sets at Q2 = 1e3, 1e4, 1e5 (bound %g/Q2 of the scale '
                     'max(|A|,|B|, 0.1 sqrt(|T_BH T_DVCS|))), the twist-two LP squared-DVCS term of BM10 / BM10tw2 against the re-typed '
                     'formula, and LP bilinearity on the real code' % BOUND)
    rep.assumptions += ['effective (twist-three) CFFs are zero in the N-version and lp-reference streams, as in the property (eight CFFs)',
                        'the 1/Q2 bound constant 60 is about 2x the largest value measured on the pinned tree (27.8 over 35,000 samples: '
                        'TINTunp, BMK vs the BM10 family, xB -> 0.6; 11.6 over the first 400 points)',
                        'TDVCS2LP of BM10 / BM10tw2 vs the re-typed formula: %g of the sum of the absolute values of its terms (rounding only)' % TOL_REF,
                        'the known-finding keys of BM10ex (parity/…, bjorken/TDVCS2LP/BM10ex-BM10, …-BM10tw2) are assigned only when BM10ex\'s value '
                        'equals, to 1e-9 of the scale, the value that C_LP := C_unp (re-typed BM10 (2.22)) predicts and the partner set agrees with '
                        'the re-typed twist-two formula; otherwise the key is bjorken-unexplained/… / parity-unexplained/…']
    return rep.finish(level='proof', checker_cmd='tools/regen.py (py2lean) ; lake build Props.C06 ; #print axioms ; gepdriver c06.* vs bmk.py',
                      trusted=['Lean 4.33 kernel', 'tools/py2lean.py (validated by correspondence on every run)', 'harness/props/C06.py'])


PROVIDER_BASES = {'hybrid-free-pole': ('PWNormGPD', 'HybridFreePoleCFF'), 'hybrid-fixed-pole': ('PWNormGPD', 'HybridFixedPoleCFF'),
                  'dispersive': ('DispersionFixedPoleCFF',), 'mellin-barnes': ('PWNormGPD', 'MellinBarnesCFF')}


def replay(path):
    import json
    d = json.load(open(path))
    print(open(path).read()[:3000])
    if 'provider' in d and 'term' in d and 'kinematics' in d:
        # re-evaluate the case of the substitution stream on the current tree: exit 1 while it still fails
        import gepard as g
        kind, pset = d['provider'].split('/')
        eff = g.eff.DipoleEFF if pset in ('KM10', 'KM09a') else g.eff.KellyEFF
        bases = (eff,) + tuple(getattr(g, b) for b in PROVIDER_BASES[kind]) + (getattr(g, d['set']),)
        th = type('Replay', bases, {})()
        th.parameters.update(d['parameters'])
        pt, kin = B.prepared(d['kinematics'])
        m = {nm: float(getattr(th, nm)(kin)) for nm in ['ReH', 'ImH', 'ReE', 'ImE', 'ReHt', 'ImHt', 'ReEt', 'ImEt']}
        m['F1'], m['F2'] = float(th.F1(kin)), float(th.F2(kin))
        got = float(getattr(th, d['term'])(kin))
        want = float(getattr(B.theory(d['set'], m), d['term'])(kin))
        bad = abs(got - want) > 1e-9 * max(abs(want), 1e-300)
        print('replayed on the current tree: %s = %r, constant-CFF theory with the reported values = %r -> %s'
              % (d['term'], got, want, 'STILL FAILS' if bad else 'holds now'))
        return 1 if bad else 0
    return 0

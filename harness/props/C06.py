"""C06 — alternative DVCS formula sets agree in the Bjorken limit and respect parity.

Lean: Props/C06.lean over the regenerated Gen/BmkR.lean — LP squared-DVCS bilinearity (BM10, BM10tw2;
refuted with a witness for BM10ex), exact relations between the squared-DVCS terms of BMK / hotfixedBMK /
BM10 / BM10tw2 and the 1/Q² bound they imply.
Correspondence: all ~250 translated coefficient functions, the T-terms and the XS assembly of all five
sets versus the real code (1e-10) — the tie that makes a leading-power error in any single coefficient
visible.  Oracle stream (N-version): pairwise differences of the sets at Q² ∈ {1e3, 1e4, 1e5}, fixed
xB, t, y, φ, must stay below 60/Q² of the scale; LP bilinearity on the real code.
"""
import itertools
import math

import bmkcommon as B
import common

BOUND = 60.0      # |A - B| / scale <= BOUND / Q2  (measured on the pinned tree: <= 11.6 over 400 kinematic points)


def point(xB, y, t, phi, Q2, lam, chg):
    from gepard.constants import Mp
    E = Q2 / (2 * Mp * xB * y)
    return dict(xB=xB, Q2=Q2, t=t, phi=phi, in1energy=E, exptype='fixed target', process='ep2epgamma',
                in1charge=chg, in1polarization=lam, in2particle='p')


def nversion(rep, rng, n):
    import gepard as g
    from gepard.constants import Mp2
    for trial in range(n):
        xB = rng.uniform(0.01, 0.6)
        y = rng.uniform(0.05, 0.85)
        phi = rng.uniform(0, 2 * math.pi)
        lam, chg = rng.choice([-1, 1]), rng.choice([-1, 1])
        m = B.random_m(rng, with_eff=False)
        tmin3 = g.tmin(1e3, xB, 4 * xB ** 2 * Mp2 / 1e3)
        t = rng.uniform(-1, min(tmin3, -1e-3) - 1e-3)
        vals = {}
        try:
            for Q2 in (1e3, 1e4, 1e5):
                for fs in B.FORMULA_SETS:
                    th = B.theory(fs, m)
                    pt, kin = B.prepared(point(xB, y, t, phi, Q2, lam, chg))
                    vals[(fs, Q2, 'TDVCS2unp')] = float(th.TDVCS2unp(kin))
                    vals[(fs, Q2, 'TINTunp')] = float(th.TINTunp(kin))
                    vals[(fs, Q2, 'scale')] = 0.1 * math.sqrt(abs(float(th.TBH2unp(kin)) * float(th.TDVCS2unp(kin))))
                    if fs in B.LP_SETS:
                        vals[(fs, Q2, 'TDVCS2LP')] = float(th.TDVCS2LP(kin))
                        vals[(fs, Q2, 'TINTLP')] = float(th.TINTLP(kin))
        except Exception as e:
            rep.violation('nversion/exception/' + type(e).__name__, 'evaluation raised %r' % (e,), dict(xB=xB, y=y, t=t, phi=phi))
            continue
        rep.case('nversion', (trial, xB, y), sample=dict(xB=xB, y=y, t=t, phi=phi) if trial < 2 else None)
        for a, b in itertools.combinations(B.FORMULA_SETS, 2):
            for term in ('TDVCS2unp', 'TINTunp', 'TDVCS2LP', 'TINTLP'):
                if (a, 1e3, term) not in vals or (b, 1e3, term) not in vals:
                    continue
                for Q2 in (1e3, 1e4, 1e5):
                    A, Bv = vals[(a, Q2, term)], vals[(b, Q2, term)]
                    sc = max(abs(A), abs(Bv), vals[(a, Q2, 'scale')], 1e-300)
                    r = abs(A - Bv) / sc
                    if r * Q2 > BOUND:
                        pair = '%s-%s' % (a, b)
                        rep.violation('bjorken/%s/%s' % (term, pair),
                                      '%s of %s and %s differ by %.3g of the scale at Q2=%g (xB=%.4g, t=%.4g, y=%.4g, phi=%.4g): '
                                      '%r vs %r; 1/Q2 convergence requires <= %.3g' % (term, a, b, r, Q2, xB, t, y, phi, A, Bv, BOUND / Q2),
                                      dict(term=term, sets=[a, b], Q2=Q2, xB=xB, t=t, y=y, phi=phi, helicity=lam, charge=chg, model=m,
                                           values=[A, Bv]))
                        break


def parity(rep, rng, n):
    for i in range(n):
        fs = rng.choice(B.LP_SETS)
        which = rng.choice(['zeroVec', 'zeroAx'])
        m = B.random_m(rng, with_eff=rng.random() < 0.5)
        for k in list(m):
            isax = k.endswith('t') or k.endswith('teff')
            if k in ('F1', 'F2'):
                continue
            if (which == 'zeroAx' and isax) or (which == 'zeroVec' and not isax):
                m[k] = 0.0
        th = B.theory(fs, m)
        kw = B.random_kinematics(rng)
        kw['in1polarization'] = rng.choice([-1, 1])
        pt, kin = B.prepared(kw)
        try:
            v = float(th.TDVCS2LP(kin))
            ref = abs(float(th.TDVCS2unp(kin))) + 1e-300
        except Exception as e:
            rep.violation('parity/exception/' + type(e).__name__, '%s.TDVCS2LP raised %r' % (fs, e), dict(set=fs))
            continue
        rep.case('parity', (fs, which, i), sample=dict(set=fs, which=which, value=v) if i < 3 else None)
        if abs(v) > 1e-12 * ref:
            rep.violation('parity/%s/TDVCS2LP' % fs,
                          'TDVCS2LP of %s = %r with all %s CFFs zero (TDVCS2unp = %r): not bilinear vector x axial' % (
                              fs, v, 'axial' if which == 'zeroAx' else 'vector', ref),
                          dict(set=fs, which=which, kinematics=kw, model=m, value=v))


def reuse_stream(rep, rng, n):
    """a prepared point evaluated with one set of CFFs and then with another must give, for the second, what a
    fresh copy of the point gives (the terms are functions of the CFF values and the kinematics only)"""
    for i in range(n):
        fs = rng.choice(B.FORMULA_SETS)
        kw = B.random_kinematics(rng)
        kw['in1polarization'] = rng.choice([-1, 1])
        pt, kin = B.prepared(kw)
        m1, m2 = B.random_m(rng), B.random_m(rng)
        th1, th2 = B.theory(fs, m1), B.theory(fs, m2)
        terms = ['TINTunp', 'TDVCS2unp', 'TBH2unp'] + (['TINTLP', 'TDVCS2LP'] if fs in B.LP_SETS else [])
        try:
            for tname in terms:
                getattr(th1, tname)(kin)
            second = {tname: float(getattr(th2, tname)(kin)) for tname in terms}
            pt2, fresh = B.prepared(kw)
            ref = {tname: float(getattr(th2, tname)(fresh)) for tname in terms}
        except Exception as e:
            rep.violation('reuse/exception/' + type(e).__name__, '%s raised %r' % (fs, e), dict(set=fs, kinematics=kw))
            continue
        rep.case('reuse', (fs, i), sample=dict(set=fs) if i < 2 else None)
        for tname in terms:
            if second[tname] != ref[tname]:
                rep.violation('reuse/%s/%s' % (fs, tname),
                              '%s.%s on a prepared point that had been evaluated with other CFF values before gives %r, on a fresh '
                              'copy of the point %r' % (fs, tname, second[tname], ref[tname]),
                              dict(set=fs, term=tname, kinematics=kw, first_model=m1, second_model=m2))
                break


def run(rep):
    rng = rep.rng
    ok, why = common.lean_side(rep, 'C06')
    quick = rep.tier == 'quick'
    broken = B.entry_correspondence(rep, rng, 60 if quick else 1500)
    nversion(rep, rng, (15 if quick else 600) * (3 if (broken or not ok) else 1))
    parity(rep, rng, 60 if quick else 2000)
    reuse_stream(rep, rng, 25 if quick else 600)
    for kind, fset, e, v, o, kw, m in broken[:5]:
        if not rep.violations:
            rep.violation('model/%s/%s/%s' % (kind, fset, e), 'translated model and code disagree on %s.%s: code %r model %r' % (fset, e, v, o),
                          dict(set=fset, entry=e, kinematics=kw, model=m), found_input=False)
    if not ok and not rep.violations:
        rep.violation('lean', 'Lean side of C06 no longer checks: ' + why, dict(reason=why), found_input=False)
    rep.notes.append('oracle streams: N-version comparison of the five sets at Q2 = 1e3, 1e4, 1e5 (bound %g/Q2 of the scale '
                     'max(|A|,|B|, 0.1 sqrt(|T_BH T_DVCS|))) and LP bilinearity on the real code' % BOUND)
    rep.assumptions += ['effective (twist-three) CFFs are zero in the N-version stream, as in the property (eight CFFs)',
                        'the 1/Q2 bound constant 60 is 5x the largest value measured on the pinned tree']
    return rep.finish(level='proof', checker_cmd='tools/regen.py (py2lean) ; lake build Props.C06 ; #print axioms ; gepdriver c06.* vs bmk.py',
                      trusted=['Lean 4.33 kernel', 'tools/py2lean.py (validated by correspondence on every run)', 'harness/props/C06.py'])


def replay(path):
    print(open(path).read()[:3000])
    return 0

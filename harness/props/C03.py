"""C03 — anomalous dimensions and NLO coefficients are moments of the textbook kernels.

Lean: Props/C03.lean (ℝ/ℂ) over Scalar/Adim.lean.in, which tools/gen_adim.py translates from the AST of
/repo/src/gepard/{constants,special,adim,c1dvcs}.py on every run; its Float instance runs in the driver.

Streams
  corr.*      model (Float) vs real code at scalar AND array complex n, special-function values fed from
              gepard.special at the same n:  adim.singlet_LO / non_singlet_LO / singlet_NLO /
              non_singlet_NLO(+-) / block,  c1dvcs.c1_F2 / c1_FL / c1_F1 / c1_V / shift1 / C1.
  prop.*      the property evaluated directly on the real code, no model: sum rules at n = 1, 2 (with the
              residual predicted by the Lean theorem), Schwarz reflection, affinity in nf, cusp limit.
              and: one array object refilled / shifted / scaled in place between calls gives the values of its new contents.
  oracle.*    what no theorem carries: numerical Mellin moments of the x-space LO splitting functions,
              of the MSbar NLO F2 / FL coefficient functions and of the two-loop splitting functions
              (props/C03_kernels.py; double-precision Gauss-Legendre in t = -ln x, cross-checked against
              mpmath on a sample every run).  They support, never replace, the theorems.
              and, exactly (rational arithmetic), the Gegenbauer moment of the one-loop MSbar DVCS quark kernel
              at integer conformal spin j = 0..30 versus c1_V.
NOT covered by an independent reference: the gluon entry of c1_V, the conformal-scheme shift s_1 and the
conformal-OPE prediction behind C1(csbar) — tied to the model (and to theorems C1_scale_dependence,
C1_at_unit_scale, affinity, Schwarz) only.
"""
import cmath
import json
import math
import os
import sys
import types

import common
from common import f2hex, hex2f

TOL_CORR = 1e-10      # model vs code, relative to max(|a|,|b|, 1e-2 * largest entry of the group)
TOL_EXACT = 1e-11     # identities on the real code that hold up to rounding (Schwarz, affinity, LO sum rules)
TOL_LO = 1e-9         # code vs quadrature of the LO kernels / coefficient functions, rel. to max(1,|value|)
TOL_NLO_RAW = 1e-6    # code vs two-loop moments: the MellinF2 8-term fit is inside (observed <= 1.3e-7)
TOL_NLO_COR = 1e-9    # … after removing slope * (MellinF2_fit - MellinF2_quadrature)
TOL_SUM_NLO = 1e-6    # NLO sum rules on the real code, absolute (entries are O(10))

CF, CA, TF = 4.0 / 3.0, 3.0, 0.5
CG = CF - CA / 2

NAMES_ADIM = ['qq0', 'qg0', 'gq0', 'gg0', 'ns0', 'qq1', 'qg1', 'gq1', 'gg1', 'nsp1', 'nsm1']


def cx(z):
    z = complex(z)
    return f2hex(z.real) + ' ' + f2hex(z.imag)


def parse_cs(o):
    t = o.split()
    return [complex(hex2f(t[2 * i]), hex2f(t[2 * i + 1])) for i in range(len(t) // 2)]


def sf_tokens(sp, n):
    """the SF record at Mellin moment n, from gepard.special (same call forms as the code uses)"""
    n = complex(n)
    vals = [sp.S1(n), sp.S2(n), sp.S2(n / 2), sp.S3(n / 2), sp.S2(n / 2 - 1 / 2), sp.S3(n / 2 - 1 / 2),
            sp.psi(n / 2), sp.psi((n + 1) / 2), sp.MellinF2(n)]
    return ' '.join(cx(v) for v in vals) + ' ' + f2hex(sp.zeta(2)) + ' ' + f2hex(sp.zeta(3))


def sj_tokens(sp, j):
    j = complex(j)
    return ' '.join(cx(v) for v in (sp.S1(j), sp.S1(j + 1), sp.S1(j + 2), sp.S1(j + 3 / 2)))


def gen_n(rng):
    r = rng.random()
    if r < 0.45:
        return complex(rng.uniform(1.05, 30), rng.uniform(-40, 40))
    if r < 0.65:
        return complex(rng.uniform(1.05, 4), rng.uniform(-5, 5))
    if r < 0.75:
        return complex(rng.uniform(1.05, 1.4), rng.uniform(-1, 1))
    if r < 0.85:
        return complex(rng.uniform(1.05, 30), 0.0)
    if r < 0.93:
        return complex(rng.randint(2, 30), 0.0)
    return complex(rng.uniform(1.05, 30), rng.choice([-40, 40, 10.0, -10.0, 9.999999, 1e-9]))


def adim_all(adim, n, nf, prty=1):
    """everything adim computes at n (scalar or array) as a list of 11 arrays/values"""
    lo = adim.singlet_LO(n, nf, prty)
    nlo = adim.singlet_NLO(n, nf, prty)
    return [lo[0, 0], lo[0, 1], lo[1, 0], lo[1, 1], adim.non_singlet_LO(n, nf, prty),
            nlo[0, 0], nlo[0, 1], nlo[1, 0], nlo[1, 1],
            adim.non_singlet_NLO(n, nf, 1), adim.non_singlet_NLO(n, nf, -1)]


def group_err(code, model):
    """max relative error over a group of complex numbers, with the group's scale"""
    big = max([abs(c) for c in code] + [abs(m) for m in model] + [1e-300])
    worst, wi = 0.0, -1
    for i, (a, b) in enumerate(zip(code, model)):
        if a != a or b != b:
            e = 0.0 if (a != a and b != b) else float('inf')
        else:
            e = abs(a - b) / max(abs(a), abs(b), 1e-2 * big)
        if e > worst:
            worst, wi = e, i
    return worst, wi


def in_domain_call(m):
    """a recorded corr.* call lies inside the quantifier of the property: any moment drawn by gen_n, and for C1 / shift1
    (extra = (rf2, process, scheme)) only scheme in {msbar, csbar} and process in {DIS, DVCS}"""
    ex = m.get('extra')
    if ex is None:
        return True
    return ex[2] in ('msbar', 'csbar') and ex[1] in ('DIS', 'DVCS')


class Oracle:
    """the property itself on the real code, against x-space moments"""

    def __init__(self, g):
        from props import C03_kernels as K
        self.K = K
        self.adim, self.c1, self.sp = g.adim, g.c1dvcs, g.special
        self.mf2_kernel = dict(regular=lambda x, L: L.li2(x) / (1 + x), pole_at_one=False)

    @staticmethod
    def finite(z):
        z = complex(z)
        return z == z and abs(z) != float('inf')

    def lo(self, n, nf):
        ks = self.K.lo_kernels(nf)
        lo = self.adim.singlet_LO(n, nf)
        out = []
        for name, val in (('qq', lo[0, 0]), ('qg', lo[0, 1]), ('gq', lo[1, 0]), ('gg', lo[1, 1]),
                          ('qq', self.adim.non_singlet_LO(n, nf))):
            ref = -2 * self.K.moment_np(ks[name], n)
            out.append((name if len(out) < 4 else 'ns', complex(val), ref,
                        abs(val - ref) / max(1.0, abs(val))))
        return out

    def c1f(self, n, nf):
        ks = self.K.c1_kernels(nf)
        c2, cl = self.c1.c1_F2(n, nf), self.c1.c1_FL(n, nf)
        out = []
        for name, val in (('F2q', c2[0]), ('F2g', c2[1]), ('FLq', cl[0]), ('FLg', cl[1])):
            ref = self.K.moment_np(ks[name], n)
            out.append((name, complex(val), ref, abs(val - ref) / max(1.0, abs(val))))
        return out

    def nlo(self, n, nf):
        ks = self.K.nlo_kernels(nf)
        nlo = self.adim.singlet_NLO(n, nf)
        d = complex(self.sp.MellinF2(n)) - self.K.moment_np(self.mf2_kernel, n)
        out = []
        for name, val, slope in (('qq', nlo[0, 0], 16 * CF * CG), ('qg', nlo[0, 1], 0.0),
                                 ('gq', nlo[1, 0], 0.0), ('gg', nlo[1, 1], 8 * CA * CA),
                                 ('NS+', self.adim.non_singlet_NLO(n, nf, 1), 16 * CF * CG),
                                 ('NS-', self.adim.non_singlet_NLO(n, nf, -1), -16 * CF * CG)):
            ref = -2 * self.K.moment_np(ks[name], n)
            val = complex(val)
            raw = abs(val - ref) / max(1.0, abs(val))
            cor = abs(val - slope * d - ref) / max(1.0, abs(val))
            out.append((name, val, ref, raw, cor))
        return out, d


def run(rep):
    import numpy as np
    import gepard as g
    from gepard import adim, c1dvcs, special as sp
    rng = rep.rng
    quick = rep.tier == 'quick'
    mult = 1 if quick else 20

    # ---------------- Lean side: regenerate the model from /repo, build, audit ----------------
    gen_err = None
    try:
        sys.path.insert(0, os.path.join(common.VERIF, 'tools'))
        import gen_adim
        try:
            with common.lean_lock():          # the template is shared with concurrent runs of other checks
                gen_adim.main()
        except gen_adim.Reject as e:
            gen_err = 'tools/gen_adim.py rejected the current source: %s' % e
    except Exception as e:  # noqa: BLE001
        gen_err = 'tools/gen_adim.py failed: %r' % (e,)
    ok, why = common.lean_side(rep, 'C03')
    if gen_err:
        ok, why = False, (gen_err + '; ' + why).strip('; ')
    rep.coverage['model_generated_from'] = os.path.join(common.REPO, 'src/gepard/{constants,special,adim,c1dvcs}.py')

    orc = Oracle(g)
    lines, meta = [], []

    def add(line, **m):
        lines.append(line)
        meta.append(m)

    # ---------------- corr: adim at scalar n ----------------
    for i in range(300 * mult):
        n = gen_n(rng)
        nf = rng.randint(2, 6)
        prty = rng.choice([1, -1])
        try:
            impl = [complex(v) for v in adim_all(adim, n, nf, prty)]
        except Exception as e:  # noqa: BLE001
            impl = 'EXC:' + type(e).__name__
        add('c03.adim %s %s %s %s' % (f2hex(nf), f2hex(prty), cx(n), sf_tokens(sp, n)),
            kind='adim', n=n, nf=nf, impl=impl, stream='corr.adim.scalar')
        rep.hist('nf', nf)
        rep.hist('Re n', '<1.5' if n.real < 1.5 else '<4' if n.real < 4 else '<12' if n.real < 12 else '<=30')
        rep.hist('|Im n|', '0' if n.imag == 0 else '<1' if abs(n.imag) < 1 else '<10' if abs(n.imag) < 10 else '<=40')
    # ---------------- corr: adim + block at array n ----------------
    for i in range(40 * mult):
        k = rng.randint(1, 6)
        ns = [gen_n(rng) for _ in range(k)]
        nf = rng.randint(2, 6)
        arr = np.array(ns)
        try:
            vals = adim_all(adim, arr, nf)
            blk = adim.block(arr, nf)
            shape_ok = all(np.shape(v) == (k,) for v in vals) and blk.shape == (k, 2, 4, 4)
        except Exception as e:  # noqa: BLE001
            vals, blk, shape_ok = 'EXC:' + type(e).__name__, None, False
        for idx, n in enumerate(ns):
            impl = vals if isinstance(vals, str) else [complex(v[idx]) for v in vals]
            add('c03.adim %s %s %s %s' % (f2hex(nf), f2hex(1), cx(n), sf_tokens(sp, n)),
                kind='adim', n=n, nf=nf, impl=impl, stream='corr.adim.array', shape_ok=shape_ok)
            impl_b = vals if blk is None else [complex(z) for z in blk[idx].reshape(-1)]
            add('c03.block %s %s %s' % (f2hex(nf), cx(n), sf_tokens(sp, n)),
                kind='block', n=n, nf=nf, impl=impl_b, stream='corr.block.array')
    for i in range(20 * mult):          # block at scalar n: shape (1, 2, 4, 4)
        n, nf = gen_n(rng), rng.randint(2, 6)
        try:
            blk = adim.block(n, nf)
            impl_b = [complex(z) for z in blk[0].reshape(-1)] if blk.shape == (1, 2, 4, 4) else 'SHAPE:%s' % (blk.shape,)
        except Exception as e:  # noqa: BLE001
            impl_b = 'EXC:' + type(e).__name__
        add('c03.block %s %s %s' % (f2hex(nf), cx(n), sf_tokens(sp, n)),
            kind='block', n=n, nf=nf, impl=impl_b, stream='corr.block.scalar')
    # ---------------- corr: c1_F2 / c1_FL / c1_F1 at scalar and array n ----------------
    for i in range(150 * mult):
        nf = rng.randint(2, 6)
        if i % 3:
            n = gen_n(rng)
            try:
                impl = [complex(z) for f in (c1dvcs.c1_F2, c1dvcs.c1_FL, c1dvcs.c1_F1) for z in f(n, nf)]
            except Exception as e:  # noqa: BLE001
                impl = 'EXC:' + type(e).__name__
            add('c03.c1 %s %s %s' % (f2hex(nf), cx(n), sf_tokens(sp, n)), kind='c1', n=n, nf=nf, impl=impl,
                stream='corr.c1.scalar')
        else:
            ns = [gen_n(rng) for _ in range(rng.randint(1, 5))]
            arr = np.array(ns)
            try:
                res = [f(arr, nf) for f in (c1dvcs.c1_F2, c1dvcs.c1_FL, c1dvcs.c1_F1)]
                good = all(x.shape == (len(ns), 4) for x in res)
            except Exception as e:  # noqa: BLE001
                res, good = 'EXC:' + type(e).__name__, False
            for idx, n in enumerate(ns):
                impl = res if isinstance(res, str) else ([complex(z) for x in res for z in x[idx]] if good else 'SHAPE')
                add('c03.c1 %s %s %s' % (f2hex(nf), cx(n), sf_tokens(sp, n)), kind='c1', n=n, nf=nf, impl=impl,
                    stream='corr.c1.array')
    # ---------------- corr: c1_V, shift1, C1 at conformal moment j = n - 1 ----------------
    for i in range(120 * mult):
        nf = rng.randint(2, 6)
        ns = [gen_n(rng) for _ in range(1 if i % 2 else rng.randint(1, 5))]
        js = [n - 1 for n in ns]
        arr = np.array(js)
        scalar = bool(i % 2)
        try:
            res = c1dvcs.c1_V(js[0], nf) if scalar else c1dvcs.c1_V(arr, nf)
            res = np.reshape(res, (len(js), 4))
        except Exception as e:  # noqa: BLE001
            res = 'EXC:' + type(e).__name__
        for idx, j in enumerate(js):
            impl = res if isinstance(res, str) else [complex(z) for z in res[idx]]
            add('c03.c1v %s %s %s' % (f2hex(nf), cx(j), sj_tokens(sp, j)), kind='c1v', n=j, nf=nf, impl=impl,
                stream='corr.c1_V.' + ('scalar' if scalar else 'array'))
    procs = [('DIS', 'DIS'), ('DVCS', 'DVCS'), ('DVMP', 'other'), ('', 'other')]
    schemes = [('msbar', 'msbar'), ('csbar', 'csbar'), ('MSBAR', 'other'), ('foo', 'other')]
    for i in range(160 * mult):
        nf = rng.randint(2, 6)
        rf2 = rng.choice([1.0, 2.0, 0.5, rng.uniform(0.2, 8.0)])
        pc, pcm = procs[i % 4] if i % 5 else rng.choice(procs)
        sc, scm = rng.choice(schemes[:2]) if rng.random() < 0.8 else rng.choice(schemes[2:])
        js = [gen_n(rng) - 1 for _ in range(rng.randint(1, 4))]
        arr = np.array(js)
        m = types.SimpleNamespace(rf2=rf2, nf=nf, scheme=sc)
        try:
            s1 = c1dvcs.shift1(m, arr, pc)
            s1 = [complex(z) for z in np.broadcast_to(s1, (len(js),))]
        except Exception as e:  # noqa: BLE001
            s1 = 'Exception' if type(e) is Exception else 'EXC:' + type(e).__name__
        try:
            c = c1dvcs.C1(m, arr, pc)
            c = [[complex(z) for z in row] for row in c] if np.shape(c) == (len(js), 4) else 'SHAPE:%s' % (np.shape(c),)
        except Exception as e:  # noqa: BLE001
            c = 'Exception' if type(e) is Exception else 'EXC:' + type(e).__name__
        rep.hist('C1 (scheme,process)', '%s/%s' % (scm if scm != 'other' else 'other:' + sc, pcm if pcm != 'other' else 'other:' + pc))
        for idx, j in enumerate(js):
            add('c03.shift1 %s %s %s' % (f2hex(rf2), pcm, sj_tokens(sp, j)), kind='shift1', n=j, nf=nf,
                impl=s1 if isinstance(s1, str) else [s1[idx]], stream='corr.shift1', extra=(rf2, pc, sc))
            add('c03.C1 %s %s %s %s %s %s %s' % (f2hex(rf2), f2hex(nf), scm, pcm, cx(j), sf_tokens(sp, j + 1),
                                                sj_tokens(sp, j)),
                kind='C1', n=j, nf=nf, impl=c if isinstance(c, str) else c[idx], stream='corr.C1',
                extra=(rf2, pc, sc))

    # ---------------- model vs code ----------------
    try:
        out = common.run_driver(lines)
    except common.ModelUnavailable as ex:
        # the model is regenerated from /repo on every run: a source change the generator accepts but Lean rejects lands
        # here.  The correspondence is lost; the prop.* / oracle.* streams below evaluate the property on the real code
        rep.coverage['model_unavailable'] = str(ex)[:500]
        rep.violation('model-unavailable', 'the executable model of C03 could not be built (%s): the model-vs-code comparison '
                      'did not run; the prop.* and oracle.* streams did' % str(ex)[:300], dict(detail=str(ex)[:1000]),
                      found_input=False)
        out = []
        # what the corr.* streams recorded about the real code alone is still looked at: exceptions / shapes inside the domain
        for m in meta:
            impl = m['impl']
            if isinstance(impl, str) and impl.startswith(('EXC', 'SHAPE')) and in_domain_call(m):
                rep.violation('%s/%s' % (m['stream'], impl[:40]), 'the real code gives %s at n=%s nf=%s %s (inside the domain)' % (
                    impl, m['n'], m['nf'], m.get('extra', '')), dict(kind=m['kind'], n=[m['n'].real, m['n'].imag], nf=m['nf'],
                                                                      extra=str(m.get('extra', ''))), found_input=True)
    worst = {}
    for line, m, o in zip(lines, meta, out):
        impl = m['impl']
        n, nf = m['n'], m['nf']
        rep.case(m['stream'], line, sample=dict(n=str(n), nf=nf, code=str(impl)[:160]))
        if m.get('shape_ok') is False and not isinstance(impl, str):
            rep.violation('shape/' + m['kind'], 'array call of adim.* at %d moments returns a wrong shape' % 1,
                          dict(n=str(n), nf=nf), found_input=True)
        if isinstance(impl, str) or o in ('Exception', 'bad-op'):
            if impl == o:
                continue
            model = o
            err, wi = float('inf'), 0
        else:
            model = parse_cs(o)
            if len(model) != len(impl):
                err, wi = float('inf'), 0
            elif m['kind'] == 'adim':        # LO and NLO have their own scales
                e0, i0 = group_err(impl[:5], model[:5])
                e1, i1 = group_err(impl[5:], model[5:])
                err, wi = (e0, i0) if e0 >= e1 else (e1, 5 + i1)
            elif m['kind'] == 'block':
                e0, i0 = group_err(impl[:16], model[:16])
                e1, i1 = group_err(impl[16:], model[16:])
                err, wi = (e0, i0) if e0 >= e1 else (e1, 16 + i1)
                # the zero pattern must be exact zeros on both sides
                if any((impl[k] == 0) != (model[k] == 0) for k in range(32)):
                    err = float('inf')
            else:
                err, wi = group_err(impl, model)
        worst[m['stream']] = max(worst.get(m['stream'], 0.0), err if err != float('inf') else 1.0)
        if err <= TOL_CORR:
            continue
        # ---- disagreement: evaluate the property itself on the real code at this input
        found, detail = False, ''
        try:
            if m['kind'] in ('adim', 'block') and not isinstance(impl, str):
                bad = [(nm, v, ref) for nm, v, ref, e in orc.lo(n, nf) if e > TOL_LO]
                res, _d = orc.nlo(n, nf)
                bad += [(nm, v, ref) for nm, v, ref, raw, cor in res if raw > TOL_NLO_RAW or cor > TOL_NLO_COR]
                found, detail = bool(bad), 'x-space moments: %s' % (bad[:3],)
            elif m['kind'] == 'c1' and not isinstance(impl, str):
                bad = [(nm, v, ref) for nm, v, ref, e in orc.c1f(n, nf) if e > TOL_LO]
                found, detail = bool(bad), 'x-space moments: %s' % (bad[:3],)
            elif isinstance(impl, str) and impl.startswith('EXC'):
                if in_domain_call(m):
                    found, detail = True, 'the real code raises %s on a moment inside the domain' % impl
                else:
                    # an unknown scheme / process name: which exception class the code raises there is not part of
                    # the property (the model raises a bare Exception): a disagreement, no failing input
                    detail = 'the real code raises %s for scheme/process %r outside the property\'s domain' % (impl, m.get('extra'))
        except Exception as e:  # noqa: BLE001
            detail = 'oracle failed: %r' % (e,)
        name = NAMES_ADIM[wi] if m['kind'] == 'adim' and wi < 11 else '%s[%d]' % (m['kind'], wi)
        rep.violation('%s/%s' % (m['stream'], name),
                      '%s at n=%s nf=%s %s: code %s, model %s (rel. err %.3g > %g). %s' % (
                          m['kind'], n, nf, m.get('extra', ''), str(impl)[:300], str(model)[:300], err, TOL_CORR, detail),
                      dict(kind=m['kind'], n=[n.real, n.imag], nf=nf, extra=str(m.get('extra', '')), entry=name,
                           code=str(impl), model=str(model), protocol_line=line, oracle=detail),
                      found_input=found)
    rep.coverage['max_rel_err_model_vs_code'] = {k: float('%.3g' % v) for k, v in sorted(worst.items())}

    # ---------------- prop: sum rules on the real code ----------------
    import mpmath as mp
    mp.mp.dps = 30
    z2, z3, l2 = mp.zeta(2), mp.zeta(3), mp.log(2)
    mf2_exact = {2: z2 - 1 - z2 * l2 + mp.mpf(5) / 8 * z3, 1: z2 * l2 - mp.mpf(5) / 8 * z3}
    if not quick or rep.seed % 4 == 0:
        # the two closed forms the Lean statements quote, against direct quadrature of Li2(x)/(1+x)
        for k in (1, 2):
            q = mp.quad(lambda x: x ** (k - 1) * mp.polylog(2, x) / (1 + x), [0, 1])
            rep.case('prop.sumrule', ('mf2exact', k))
            if abs(q - mf2_exact[k]) > mp.mpf(10) ** -22:
                rep.violation('harness/mf2exact', 'closed form of the MellinF2(%d) reference is off: %s vs %s' % (
                    k, q, mf2_exact[k]), dict(k=k), found_input=False)
    for nf in range(2, 7):
        for form in ('scalar', 'array'):
            two = complex(2.0) if form == 'scalar' else np.array([2.0 + 0j])
            one = complex(1.0) if form == 'scalar' else np.array([1.0 + 0j])
            lo, nlo = adim.singlet_LO(two, nf), adim.singlet_NLO(two, nf)
            pick = (lambda a: complex(np.ravel(a)[0]))
            scale = max(abs(pick(lo[1, 1])), 1.0)
            checks = [
                ('LO/col_q', pick(lo[0, 0]) + pick(lo[1, 0]), 0.0, TOL_EXACT * scale),
                ('LO/col_g', pick(lo[0, 1]) + pick(lo[1, 1]), 0.0, TOL_EXACT * scale),
                ('LO/NS(1)', pick(adim.non_singlet_LO(one, nf)), 0.0, TOL_EXACT * scale),
                ('NLO/col_q', pick(nlo[0, 0]) + pick(nlo[1, 0]), 0.0, TOL_SUM_NLO),
                ('NLO/col_g', pick(nlo[0, 1]) + pick(nlo[1, 1]), 0.0, TOL_SUM_NLO),
                ('NLO/NS-(1)', pick(adim.non_singlet_NLO(one, nf, -1)), 0.0, TOL_SUM_NLO),
            ]
            d2 = float(mp.mpf(float(np.real(pick(sp.MellinF2(two))))) - mf2_exact[2])
            d1 = float(mp.mpf(float(np.real(pick(sp.MellinF2(one))))) - mf2_exact[1])
            # the residual the Lean theorems NLO_momentum_* / NLO_quark_number_minus predict
            checks += [
                ('NLO/col_q/residual', pick(nlo[0, 0]) + pick(nlo[1, 0]), 16 * CF * CG * d2, 1e-11 * 100),
                ('NLO/col_g/residual', pick(nlo[0, 1]) + pick(nlo[1, 1]), 8 * CA * CA * d2, 1e-11 * 100),
                ('NLO/NS-(1)/residual', pick(adim.non_singlet_NLO(one, nf, -1)), -16 * CF * CG * d1, 1e-11 * 100),
            ]
            for name, val, want, tol in checks:
                rep.case('prop.sumrule', (name, nf, form), sample=dict(rule=name, nf=nf, value=str(val), want=want))
                if not abs(val - want) <= tol:
                    rep.violation('sumrule/' + name, 'sum rule %s on the real code (nf=%d, %s n): %r, required %r ± %g' % (
                        name, nf, form, val, want, tol), dict(rule=name, nf=nf, form=form, value=str(val), want=want, tol=tol),
                        found_input=True)
    rep.coverage['MellinF2_fit_error_at_n=1,2'] = [d1, d2]

    # ---------------- prop: Schwarz reflection and affinity in nf on the real code ----------------
    def funcs(nf, n):
        """every output of the code at (n, nf) as {name: flat complex array}; n is an array"""
        j = n - 1
        d = {
            'singlet_LO': adim.singlet_LO(n, nf), 'non_singlet_LO': adim.non_singlet_LO(n, nf),
            'singlet_NLO': adim.singlet_NLO(n, nf), 'non_singlet_NLO+': adim.non_singlet_NLO(n, nf, 1),
            'non_singlet_NLO-': adim.non_singlet_NLO(n, nf, -1), 'block': adim.block(n, nf),
            'c1_F2': c1dvcs.c1_F2(n, nf), 'c1_FL': c1dvcs.c1_FL(n, nf), 'c1_F1': c1dvcs.c1_F1(n, nf),
            'c1_V': c1dvcs.c1_V(j, nf),
        }
        for sc in ('msbar', 'csbar'):
            for pc in ('DIS', 'DVCS'):
                d['C1/%s/%s' % (sc, pc)] = c1dvcs.C1(types.SimpleNamespace(rf2=1.7, nf=nf, scheme=sc), j, pc)
        return {k: np.ravel(np.asarray(v, dtype=complex)) for k, v in d.items()}

    for i in range(60 * mult):
        n = np.array([gen_n(rng) for _ in range(3)])
        nf = rng.randint(2, 6)
        a, b = funcs(nf, n), funcs(nf, np.conj(n))
        for k in a:
            scale = max(np.max(np.abs(a[k])), 1e-300)
            e = np.max(np.abs(np.conj(a[k]) - b[k])) / scale
            rep.case('prop.schwarz', (k, i), sample=dict(func=k, n=str(n[0]), nf=nf, err=float(e)))
            if not e <= TOL_EXACT:
                idx = int(np.argmax(np.abs(np.conj(a[k]) - b[k])))
                rep.violation('schwarz/' + k, 'Schwarz reflection fails for %s at n=%s nf=%d: max |f(conj n) - conj f(n)| / max|f| '
                              '= %.3g > %g' % (k, list(n), nf, e, TOL_EXACT),
                              dict(func=k, n=[[z.real, z.imag] for z in n], nf=nf, err=float(e), flat_index=idx),
                              found_input=True)
    for i in range(40 * mult):
        n = np.array([gen_n(rng) for _ in range(3)])
        fs = {nf: funcs(nf, n) for nf in range(0, 7)}
        for k in fs[0]:
            scale = max(max(np.max(np.abs(fs[nf][k])) for nf in fs), 1e-300)
            e = 0.0
            for nf in range(2, 7):
                e = max(e, np.max(np.abs(fs[nf][k] - (fs[0][k] + nf * (fs[1][k] - fs[0][k])))) / scale)
            for nf in range(3, 6):
                e = max(e, np.max(np.abs(fs[nf + 1][k] - 2 * fs[nf][k] + fs[nf - 1][k])) / scale)
            rep.case('prop.affine_nf', (k, i), sample=dict(func=k, n=str(n[0]), err=float(e)))
            if not e <= TOL_EXACT:
                rep.violation('affine/' + k, '%s is not affine in nf at n=%s: deviation / max|f| = %.3g > %g' % (
                    k, list(n), e, TOL_EXACT), dict(func=k, n=[[z.real, z.imag] for z in n], err=float(e)),
                    found_input=True)

    # ---------------- prop: two-loop cusp coefficient at large n ----------------
    # gamma1(n) = 4 C_R K ln n + O(1) + O(ln n / n),  K = CA (67/18 - pi^2/6) - (10/9) TF nf,  C_R = CF (NS, qq), CA (gg)
    # checked on  (gamma1(2n) - gamma1(n)) / ln 2, whose distance from 4 C_R K is O(ln n / n)
    for nf in range(2, 7):
        Kc = CA * (67.0 / 18 - math.pi ** 2 / 6) - 10.0 / 9 * TF * nf
        for nn in (1e5, 1e6, 1e7) if quick else (1e4, 1e5, 1e6, 1e7, 1e8):
            nn = complex(nn)
            s2, s1 = adim.singlet_NLO(2 * nn, nf), adim.singlet_NLO(nn, nf)
            l2n, l1n = adim.singlet_LO(2 * nn, nf), adim.singlet_LO(nn, nf)
            vals = {'NS+': (adim.non_singlet_NLO(2 * nn, nf, 1) - adim.non_singlet_NLO(nn, nf, 1), 4 * CF * Kc),
                    'NS-': (adim.non_singlet_NLO(2 * nn, nf, -1) - adim.non_singlet_NLO(nn, nf, -1), 4 * CF * Kc),
                    'qq': (s2[0, 0] - s1[0, 0], 4 * CF * Kc), 'gg': (s2[1, 1] - s1[1, 1], 4 * CA * Kc),
                    'LO/qq': (l2n[0, 0] - l1n[0, 0], 4 * CF), 'LO/gg': (l2n[1, 1] - l1n[1, 1], 4 * CA)}
            bound = 4 * math.log(nn.real) / nn.real
            for k, (dv, want) in vals.items():
                got = complex(dv) / math.log(2)
                dev = abs(got - want) / max(abs(want), 1.0)
                rep.case('prop.cusp', (k, nf, nn.real), sample=dict(entry=k, nf=nf, n=nn.real, slope=str(got), want=want))
                if not dev <= bound:
                    rep.violation('cusp/' + k, 'large-n slope of %s at n=%g nf=%d: (g(2n)-g(n))/ln2 = %s, required %.12g '
                                  '(within %.2g)' % (k, nn.real, nf, got, want, bound),
                                  dict(entry=k, n=nn.real, nf=nf, got=str(got), want=want, bound=bound), found_input=True)

    # ---------------- oracle: Mellin moments of the x-space kernels ----------------
    wl, wc, wr, wk, wd = 0.0, 0.0, 0.0, 0.0, 0.0
    with np.errstate(all='ignore'):
        for i in range(150 * mult):
            n, nf = gen_n(rng), rng.randint(2, 6)
            for name, val, ref, e in orc.lo(n, nf):
                rep.case('oracle.moments_LO', (name, n, nf), sample=dict(entry=name, n=str(n), nf=nf, code=str(val), ref=str(ref)))
                wl = max(wl, e)
                if not orc.finite(ref):
                    rep.violation('harness/oracle-nan', 'quadrature of LO kernel %s at n=%s is not finite' % (name, n),
                                  dict(entry=name, n=str(n)), found_input=False)
                elif not e <= TOL_LO:
                    rep.violation('moments_LO/' + name, 'LO %s at n=%s nf=%d: code %s, -2 x moment of the x-space kernel %s '
                                  '(rel. %.3g > %g)' % (name, n, nf, val, ref, e, TOL_LO),
                                  dict(kind='oracle_lo', entry=name, n=[n.real, n.imag], nf=nf, code=str(val), ref=str(ref)),
                                  found_input=True)
            for name, val, ref, e in orc.c1f(n, nf):
                rep.case('oracle.moments_c1', (name, n, nf), sample=dict(entry=name, n=str(n), nf=nf, code=str(val), ref=str(ref)))
                wc = max(wc, e)
                if not orc.finite(ref):
                    rep.violation('harness/oracle-nan', 'quadrature of coefficient function %s at n=%s is not finite' % (name, n),
                                  dict(entry=name, n=str(n)), found_input=False)
                elif not e <= TOL_LO:
                    rep.violation('moments_c1/' + name, 'NLO coefficient %s at n=%s nf=%d: code %s, moment of the MSbar x-space '
                                  'coefficient function %s (rel. %.3g > %g)' % (name, n, nf, val, ref, e, TOL_LO),
                                  dict(kind='oracle_c1', entry=name, n=[n.real, n.imag], nf=nf, code=str(val), ref=str(ref)),
                                  found_input=True)
        for i in range(120 * mult):
            n, nf = gen_n(rng), rng.randint(2, 6)
            if i == 0:
                n = 2 + 0j
            res, d = orc.nlo(n, nf)
            wd = max(wd, abs(d))
            for name, val, ref, raw, cor in res:
                rep.case('oracle.moments_NLO', (name, n, nf), sample=dict(entry=name, n=str(n), nf=nf, code=str(val), ref=str(ref)))
                wr, wk = max(wr, raw), max(wk, cor)
                if not (orc.finite(ref) and orc.finite(d)):
                    rep.violation('harness/oracle-nan', 'quadrature of two-loop kernel %s at n=%s is not finite' % (name, n),
                                  dict(entry=name, n=str(n)), found_input=False)
                elif not (raw <= TOL_NLO_RAW and cor <= TOL_NLO_COR):
                    rep.violation('moments_NLO/' + name, 'two-loop %s at n=%s nf=%d: code %s, -2 x moment of the two-loop x-space '
                                  'kernel %s (rel. %.3g; %.3g after removing the MellinF2 fit error %.3g; allowed %g / %g)' % (
                                      name, n, nf, val, ref, raw, cor, abs(d), TOL_NLO_RAW, TOL_NLO_COR),
                                  dict(kind='oracle_nlo', entry=name, n=[n.real, n.imag], nf=nf, code=str(val), ref=str(ref)),
                                  found_input=True)
        # mpmath cross-check of the quadrature (and of the code) on a sample
        fams = [('lo', orc.K.lo_kernels, lambda n, nf: {a: (b, c) for a, b, c, _ in orc.lo(n, nf)}, -2.0),
                ('c1', orc.K.c1_kernels, lambda n, nf: {a: (b, c) for a, b, c, _ in orc.c1f(n, nf)}, 1.0),
                ('nlo', orc.K.nlo_kernels, None, -2.0)]
        for rnd in range(1 if quick else 8):
            for fam, kf, codef, fac in fams:
                n = complex(rng.uniform(1.3, 6), rng.uniform(-6, 6))
                nf = rng.randint(2, 6)
                ks = kf(nf)
                name = rng.choice(sorted(k for k in ks if k != 'ns'))
                a = orc.K.moment_np(ks[name], n)
                b = orc.K.moment_mp(ks[name], n, mp, dps=20)
                e = abs(a - b) / max(1.0, abs(b))
                rep.case('oracle.mpmath_crosscheck', (fam, name, n), sample=dict(kernel=fam + '/' + name, n=str(n), err=e))
                if not e <= 1e-11:
                    rep.violation('harness/quadrature/' + fam, 'double-precision quadrature of kernel %s/%s at n=%s differs from '
                                  'mpmath: %s vs %s' % (fam, name, n, a, b), dict(kernel=name, n=str(n)), found_input=False)
                if codef:
                    val = codef(n, nf)[name][0]
                    e2 = abs(val - fac * b) / max(1.0, abs(val))
                    if not e2 <= TOL_LO:
                        rep.violation('moments_%s/%s' % ('LO' if fam == 'lo' else 'c1', name),
                                      '%s %s at n=%s nf=%d: code %s, mpmath moment %s' % (fam, name, n, nf, val, fac * b),
                                      dict(kind='oracle_' + fam, entry=name, n=[n.real, n.imag], nf=nf, code=str(val),
                                           ref=str(fac * b)), found_input=True)
    # ---------------- oracle: MSbar DVCS quark coefficient = Gegenbauer moment of the one-loop kernel, j = 0..30
    wv = 0.0
    for j in range(0, 31):
        ex = CF * float(orc.K.c1V_quark_exact(j))
        for form in ('scalar', 'array'):
            nf = rng.randint(2, 6)
            v = c1dvcs.c1_V(complex(j), nf) if form == 'scalar' else c1dvcs.c1_V(np.array([complex(j)]), nf)[0]
            for idx, nm in ((0, 'Q'), (2, 'NSP'), (3, 'NSM')):
                e = abs(complex(v[idx]) - ex) / max(1.0, abs(ex))
                wv = max(wv, e)
                rep.case('oracle.c1_V_conformal_moment', (j, form, nm), sample=dict(j=j, entry=nm, code=str(v[idx]), exact=ex))
                if not e <= TOL_LO:
                    rep.violation('c1_V/quark', 'c1_V(j=%d, nf=%d).%s = %s, the Gegenbauer moment of the one-loop MSbar quark '
                                  'kernel is %.15g (exact rational x CF)' % (j, nf, nm, v[idx], ex),
                                  dict(kind='c1v', j=j, nf=nf, entry=nm, code=str(v[idx]), ref=ex), found_input=True)
    rep.coverage['max_dev_c1_V_quark_vs_conformal_moment'] = float('%.3g' % wv)

    # ---------------- prop: ONE array object refilled / shifted / scaled in place between calls ----------------
    # every function of the property is a function of the VALUES of its argument: after buf[:] = ..., buf += 1, buf *= c the
    # same array object must give what a freshly built array of the new values gives (work buffers are what a caller
    # integrating over several contours has).  The references are computed after the whole sequence, on fresh one-element arrays.
    def _c1(sc, pc):
        return lambda a, nf: c1dvcs.C1(types.SimpleNamespace(rf2=1.7, nf=nf, scheme=sc), a, pc)
    # name -> (function of (array, nf), argument is j = n - 1, the axis of the result that runs over the moments)
    rfun = {'singlet_LO': (lambda a, nf: adim.singlet_LO(a, nf), False, -1),
            'non_singlet_LO': (lambda a, nf: adim.non_singlet_LO(a, nf), False, 0),
            'singlet_NLO': (lambda a, nf: adim.singlet_NLO(a, nf), False, -1),
            'non_singlet_NLO+': (lambda a, nf: adim.non_singlet_NLO(a, nf, 1), False, 0),
            'non_singlet_NLO-': (lambda a, nf: adim.non_singlet_NLO(a, nf, -1), False, 0),
            'block': (lambda a, nf: adim.block(a, nf), False, 0),
            'c1_F2': (lambda a, nf: c1dvcs.c1_F2(a, nf), False, 0), 'c1_FL': (lambda a, nf: c1dvcs.c1_FL(a, nf), False, 0),
            'c1_F1': (lambda a, nf: c1dvcs.c1_F1(a, nf), False, 0), 'c1_V': (lambda a, nf: c1dvcs.c1_V(a, nf), True, 0),
            'C1/msbar/DVCS': (_c1('msbar', 'DVCS'), True, 0), 'C1/csbar/DVCS': (_c1('csbar', 'DVCS'), True, 0),
            'C1/msbar/DIS': (_c1('msbar', 'DIS'), True, 0)}
    rnames = sorted(rfun)
    lo_kernel = {'non_singlet_LO': [(None, 'qq')], 'singlet_LO': [((0, 0), 'qq'), ((0, 1), 'qg'), ((1, 0), 'gq'), ((1, 1), 'gg')]}
    wre = 0.0
    for i in range(66 * mult):
        k = rng.randint(1, 5)
        nf = rng.randint(2, 6)
        first = rnames[i % len(rnames)]
        isj = rfun[first][1]
        # later functions take the same kind of argument (n or j) as the first; mostly the same function again
        same_kind = [nm for nm in rnames if rfun[nm][1] == isj]
        seq = [first] + [first if rng.random() < 0.6 else rng.choice(same_kind) for _ in range(rng.choice([1, 1, 2]))]
        buf = np.array([complex(rng.uniform(1.3, 13), rng.uniform(-15, 15)) for _ in range(k)]) - (1 if isj else 0)
        steps, results = [], []
        try:
            for si, nm in enumerate(seq):
                if si > 0:
                    how = rng.choice(['refill', 'refill', 'add', 'scale', 'reverse'])
                    fac = rng.uniform(1.1, 2.0)
                    off = (1 if isj else 0)
                    if (how == 'scale' and (max(buf.real + off) * fac > 30 or max(abs(buf.imag)) * fac > 40)) or \
                            (how == 'add' and max(buf.real + off) > 28):
                        how = 'refill'          # stay inside 1.05 <= Re n <= 30, |Im n| <= 40
                    if how == 'refill':
                        buf[:] = [gen_n(rng) - (1 if isj else 0) for _ in range(k)]
                    elif how == 'add':
                        buf += rng.choice([1, 2, 0.5])
                    elif how == 'scale':
                        buf *= fac
                    else:
                        buf[:] = buf[::-1].copy()
                    steps.append(how)
                contents = [complex(z) for z in buf]
                res = np.array(rfun[nm][0](buf, nf), dtype=complex)      # a copy: later calls cannot scribble on it
                results.append((nm, contents, res))
        except Exception as e:  # noqa: BLE001
            rep.violation('refilled/exception/' + type(e).__name__, 'sequence %s on one array (in-place steps %s) raised %r' % (seq, steps, e),
                          dict(sequence=seq, steps=steps, nf=nf), found_input=True)
            continue
        rep.hist('refilled.steps', '+'.join(steps))
        for si, (nm, contents, res) in enumerate(results):
            f, _isj, ax = rfun[nm]
            rep.case('prop.refilled', (nm, si, tuple(contents), nf), sample=dict(func=nm, call_number=si + 1, in_place_steps=steps[:si],
                                                                              contents=[str(z) for z in contents], nf=nf))
            bad = None
            if res.shape[ax] != k:
                bad = 'result shape %r for %d moments' % (res.shape, k)
            for idx, z in enumerate(contents if bad is None else []):
                ref = np.take(np.array(f(np.array([z]), nf), dtype=complex), 0, axis=ax)
                got = np.take(res, idx, axis=ax)
                e = float(np.max(np.abs(got - ref)) / max(float(np.max(np.abs(ref))), 1e-300))
                wre = max(wre, e)
                if not e <= TOL_EXACT:
                    bad = 'element %d (%s = %s): %s in the array call, %s for a fresh array holding that value' % (
                        idx, 'j' if _isj else 'n', z, str(np.ravel(got)[:4]), str(np.ravel(ref)[:4]))
                    for pos, kn in lo_kernel.get(nm, []):
                        mom = -2 * orc.K.moment_np(orc.K.lo_kernels(nf)[kn], z)
                        gv = complex(got if pos is None else got[pos])
                        bad += '; -2 x moment of the x-space %s kernel: %s (array call off by %.3g)' % (kn, mom, abs(gv - mom) / max(1.0, abs(mom)))
                    break
            if bad:
                rep.violation('refilled/' + nm, '%s(array, nf=%d), call %d on ONE array object changed in place between the calls (%s; '
                              'functions called: %s): %s' % (nm, nf, si + 1, ', '.join(steps[:si]) or 'first call', seq[:si + 1], bad),
                              dict(kind='refilled', func=nm, nf=nf, sequence=seq[:si + 1], in_place_steps=steps[:si],
                                   contents_per_call=[[[z.real, z.imag] for z in c_] for _n, c_, _r in results[:si + 1]],
                                   reproduce='buf = np.array(contents_per_call[0]); f(buf, nf); buf[:] = contents_per_call[1]; f(buf, nf) '
                                             'versus f(np.array(contents_per_call[1]), nf)'), found_input=True)
                break
    rep.coverage['max_dev_refilled_array_vs_fresh'] = float('%.3g' % wre)

    rep.coverage['max_dev_code_vs_xspace_moments'] = dict(LO=float('%.3g' % wl), c1_F2_FL=float('%.3g' % wc),
                                                          NLO_raw=float('%.3g' % wr), NLO_MellinF2_corrected=float('%.3g' % wk),
                                                          max_abs_MellinF2_fit_error=float('%.3g' % wd))

    if not ok and not rep.violations:
        rep.violation('lean', 'Lean side of C03 no longer checks: ' + why, dict(reason=why), found_input=False)
    rep.assumptions += [
        'moments: 1.05 <= Re n <= 30, |Im n| <= 40 (box, real axis, integers 2..30, the edges), nf in 2..6; C1 with rf2 in [0.2, 8]',
        'model vs code within %g relative to max(|a|,|b|, 1e-2 x largest entry of the same matrix) (observed <= 3e-14); '
        'the model uses textbook complex division, numpy Smith\'s algorithm: rounding-level difference' % TOL_CORR,
        'special functions (scipy psi, zeta; gepard.special S1 S2 S3 MellinF2) are parameters of the model: their values at '
        'the same n are read from gepard.special and fed in; their accuracy is property C16, except MellinF2 whose fit error '
        'is measured here against quadrature of Li2(x)/(1+x)',
        'Schwarz / affinity / LO sum rules on the real code within %g of the largest entry (they hold up to rounding; '
        'special.dpsi_one branches on z.imag < 10, which is not conjugation symmetric, at the 1e-14 level)' % TOL_EXACT,
        'x-space moments by Gauss-Legendre in t=-ln x (double precision, agrees with mpmath at 20 digits to 1e-11 on the '
        'sample of every run): LO and F2/FL within %g of max(1,|value|); two-loop within %g raw (MellinF2 fit inside) and '
        '%g after removing slope x fit error (slopes: theorem NLO_MellinF2_slope)' % (TOL_LO, TOL_NLO_RAW, TOL_NLO_COR),
        'NLO sum rules on the real code within %g absolute, and within 1e-9 of the residual the Lean theorems predict from the '
        'measured MellinF2 error' % TOL_SUM_NLO,
        'cusp: |(g(2n)-g(n))/ln2 / (4 C_R K) - 1| <= 4 ln n / n at n = 1e5, 1e6, 1e7',
        'refilled arrays: element-wise agreement with a fresh one-element array holding the same value, within %g of the largest '
        'entry (same arithmetic; observed 0)' % TOL_EXACT,
        'c1dvcs.C1 is called with array j only (as the library does); with a scalar j its einsum rejects the 0-d shift',
    ]
    rep.notes += [
        'oracle.* and prop.* streams support the theorems, they do not replace them: the theorems carry the sum rules, '
        'nf-affinity, Schwarz reflection for all n, and the LO kernels / c_FL as Mellin integrals for all integer n',
        'no independent reference for: the gluon entry of c1_V, the conformal-scheme shift s_1 (2 ln 2 + S1(j+3/2) - S1(j+2)) '
        'and the conformal-OPE form of C1(csbar) (model-vs-code + the scale-dependence / unit-scale theorems only)',
        'two-loop x-space kernels transcribed from Ellis-Stirling-Webber (4.107)-(4.112) into props/C03_kernels.py',
    ]
    return rep.finish(level='proof',
                      checker_cmd='tools/gen_adim.py; lake build Props.C03; #print axioms; gepdriver c03.* vs gepard.adim / c1dvcs; '
                                  'x-space moment oracles',
                      trusted=['Lean 4.33 kernel + Mathlib (interval integrals, geometric sum)',
                               'tools/gen_adim.py (Python AST -> Scalar/Adim.lean.in) and its hand-written HEAD/TAIL '
                               '(cpow, poch, block, shift1, C1), tied by the correspondence',
                               'Scalar/Adim.lean.in instantiated at Float and ℝ (same text)',
                               'special functions as parameters (values from gepard.special at the same n)',
                               'harness/props/C03.py, harness/props/C03_kernels.py (x-space kernels, quadrature)'])


def replay(path):
    """re-evaluate a stored failing input on the real code"""
    import numpy as np
    import gepard as g
    r = json.load(open(path))
    print(json.dumps({k: r[k] for k in r if k not in ('protocol_line',)}, indent=1)[:3000])
    kind = r.get('kind', '')
    if 'n' in r and isinstance(r['n'], list) and len(r['n']) == 2 and isinstance(r['n'][0], (int, float)) and 'nf' in r:
        n, nf = complex(r['n'][0], r['n'][1]), int(r['nf'])
        orc = Oracle(g)
        with np.errstate(all='ignore'):
            bad = [(a, b, c) for a, b, c, e in orc.lo(n, nf) if e > TOL_LO]
            bad += [(a, b, c) for a, b, c, e in orc.c1f(n, nf) if e > TOL_LO]
            bad += [(a, b, c) for a, b, c, raw, cor in orc.nlo(n, nf)[0] if raw > TOL_NLO_RAW or cor > TOL_NLO_COR]
        print('real code vs x-space moments at n=%s nf=%d: %s' % (n, nf, bad if bad else 'agree'))
        return 1 if bad else 0
    if 'rule' in r and 'nf' in r:
        from gepard import adim
        nf, rule = int(r['nf']), r['rule']
        lo, nlo = adim.singlet_LO(2 + 0j, nf), adim.singlet_NLO(2 + 0j, nf)
        vals = {'LO/col_q': lo[0, 0] + lo[1, 0], 'LO/col_g': lo[0, 1] + lo[1, 1],
                'LO/NS(1)': adim.non_singlet_LO(1 + 0j, nf),
                'NLO/col_q': nlo[0, 0] + nlo[1, 0], 'NLO/col_g': nlo[0, 1] + nlo[1, 1],
                'NLO/NS-(1)': adim.non_singlet_NLO(1 + 0j, nf, -1)}
        base = rule.replace('/residual', '')
        val = complex(vals[base])
        bad = abs(val - r.get('want', 0.0)) > r.get('tol', TOL_SUM_NLO)
        print('sum rule %s at nf=%d on the real code: %r (required %r +- %g): %s' % (
            rule, nf, val, r.get('want', 0.0), r.get('tol', TOL_SUM_NLO), 'VIOLATED' if bad else 'holds'))
        return 1 if bad else 0
    if kind == 'c1v' and 'j' in r:
        from gepard import c1dvcs
        from props import C03_kernels as K
        j, nf = int(r['j']), int(r['nf'])
        v = complex(c1dvcs.c1_V(complex(j), nf)[0])
        ex = CF * float(K.c1V_quark_exact(j))
        bad = abs(v - ex) > TOL_LO * max(1.0, abs(ex))
        print('c1_V(j=%d).Q on the real code: %r, Gegenbauer moment %.15g: %s' % (j, v, ex, 'VIOLATED' if bad else 'agree'))
        return 1 if bad else 0
    print('(no automatic replay for kind %r: see the stored input above)' % kind)
    return 0

"""C15 — the running coupling solves the renormalisation-group equation.

Lean: Props/C15.lean (ℝ) over Scalar/Coupling.lean.in (model of qcd.beta, _fbeta1, as2pf); its
Float instantiation runs in the driver.

Streams
  beta, fbeta1, as2pf.box, as2pf.wide, as2pf.err   model (Float) versus the real code: correspondence
  oracle.reference, oracle.accuracy, oracle.twostep, oracle.monotone
      the property evaluated directly on the real code against independent references (fine RK4 in
      pure Python with textbook beta coefficients, the implicit exact NLO solution in mpmath,
      mpmath.odefun on a subsample).  These carry the part no theorem carries (RK4 accuracy 1e-4,
      NLO two-step = one-step, monotonicity in r2 at NLO); they support, never replace, the theorems.
"""
import math

import common
from common import f2hex, hex2f, relerr

TOL_MODEL = 1e-12      # model vs code, relative (same IEEE operation order; libm pow/log may differ by an ulp)
TOL_PROP = 1e-4        # the property's stated accuracy
TOL_LO2 = 1e-12        # LO two-step vs one-step: exact over ℝ, a few roundings amplified by 1/den ≤ 4
AMAX = 0.12            # the property's bound on alpha_s/2pi


# ------------------------------------------------------------------ independent references
def b0_ref(nf):
    return -(11.0 - 2.0 * nf / 3.0)


def b1_ref(nf):
    return -(102.0 - 38.0 * nf / 3.0)


def rk4_ref(b0, b1, a, L, n=400):
    """fine classical RK4 for da/dL = b0 a^2 + b1 a^3 (a = alpha_s/4pi); pure Python"""
    h = L / n
    for _ in range(n):
        k0 = h * a * a * (b0 + b1 * a)
        y = a + 0.5 * k0
        k1 = h * y * y * (b0 + b1 * y)
        y = a + 0.5 * k1
        k2 = h * y * y * (b0 + b1 * y)
        y = a + k2
        k3 = h * y * y * (b0 + b1 * y)
        a = a + (k0 + 2 * k1 + 2 * k2 + k3) / 6
        if not (0 < a < 1e3):
            return float('inf')
    return a


def _F(mp, b0, b1, a):
    """antiderivative of 1/(a^2 (b0 + b1 a)): L = F(a) - F(a0) is the exact implicit solution"""
    if b1 == 0:
        return -1 / (b0 * a)
    return -1 / (b0 * a) + (b1 / b0 ** 2) * mp.log(abs(b0 + b1 * a) / a)


def in_domain(mp, b0, b1, a0, L):
    """exact solution exists and stays <= AMAX/2 (a = alpha_s/4pi): F is decreasing in a"""
    if L >= 0:
        return True
    b0, b1, a0, L = (mp.mpf(x) for x in (b0, b1, a0, L))
    return L >= _F(mp, b0, b1, mp.mpf(AMAX) / 2) - _F(mp, b0, b1, a0)


def implicit_ref(mp, b0, b1, a0, L):
    if L == 0:
        return a0
    b0, b1, a0, L = (mp.mpf(x) for x in (b0, b1, a0, L))
    t = _F(mp, b0, b1, a0) + L
    br = (a0 * mp.mpf('1e-9'), a0) if L > 0 else (a0, mp.mpf(AMAX) / 2 * (1 + mp.mpf('1e-12')))
    return float(mp.findroot(lambda a: _F(mp, b0, b1, a) - t, br, solver='illinois', tol=1e-26,
                             maxsteps=200))


def odefun_ref(mp, b0, b1, a0, L):
    s = 1.0 if L >= 0 else -1.0
    b0, b1 = mp.mpf(b0), mp.mpf(b1)
    f = mp.odefun(lambda x, y: s * (b0 * y ** 2 + b1 * y ** 3), 0, mp.mpf(a0), tol=mp.mpf('1e-18'))
    return float(f(abs(L)))


def call(qcd, p, nf, r2, as0, r20):
    """the real code, every exception mapped to a string"""
    try:
        v = qcd.as2pf(p, nf, r2, as0, r20)
        return float(v)
    except ValueError:
        return 'ValueError'
    except ZeroDivisionError:
        return 'ZeroDivisionError'
    except OverflowError:
        return 'OverflowError'
    except Exception as e:  # noqa: BLE001
        return 'EXC:' + type(e).__name__


def reference(mp, p, nf, as0, L):
    """alpha_s/2pi from the independent fine RK4 (None when outside the property's domain)"""
    b0, b1 = b0_ref(nf), (b1_ref(nf) if p == 1 else 0.0)
    if not in_domain(mp, b0, b1, as0 / 2, L):
        return None
    return 2 * rk4_ref(b0, b1, as0 / 2, L)


def box_case(rng):
    p = rng.choice([0, 1])
    nf = rng.choice([3, 4, 5, 6])
    r = rng.random()
    as0 = 0.1 if r < 0.08 else 0.005 if r < 0.12 else rng.uniform(0.005, 0.1) if r < 0.7 else \
        0.005 * 20 ** rng.random()
    r20 = rng.choice([1.0, 100.0, 2.5, 4.0]) if rng.random() < 0.15 else 10 ** rng.uniform(0, 2)
    r = rng.random()
    ratio = 1e6 if r < 0.06 else 0.2 if r < 0.10 else 10 ** rng.uniform(math.log10(0.2), 6) if r < 0.8 \
        else 10 ** rng.uniform(math.log10(0.2), 0.5)
    return p, nf, as0, r20, ratio


def find_zero_denominator(nf):
    """inputs with an exactly vanishing LO denominator in binary64 (ZeroDivisionError branch)"""
    from gepard import qcd
    hb = 0.5 * qcd.beta(0, nf)
    for k in range(2, 400):
        r2, r20 = float(k), 1.0
        lr = math.log(r2 / r20)
        x = 1.0 / (hb * lr)
        for _ in range(3):
            x = math.nextafter(x, -math.inf)
        for _ in range(7):
            if 1. - hb * x * lr == 0.0:
                return r2, x, r20
            x = math.nextafter(x, math.inf)
    return None


def run(rep):
    import mpmath as mp
    from gepard import qcd
    mp.mp.dps = 30
    rng = rep.rng
    ok, why = common.lean_side(rep, 'C15')
    quick = rep.tier == 'quick'
    mult = 1 if quick else 12
    lines, meta = [], []

    # ------------------------------------------------------------ beta, _fbeta1 (correspondence)
    for p in range(-2, 6):
        for nf in range(0, 9):
            try:
                impl = float(qcd.beta(p, nf))
            except ValueError:
                impl = 'ValueError'
            except Exception as e:  # noqa: BLE001
                impl = 'EXC:' + type(e).__name__
            lines.append('c15.beta %d %s' % (p, f2hex(nf)))
            meta.append(dict(kind='beta', p=p, nf=nf, impl=impl))
    fbeta1 = common.private(rep, qcd, '_fbeta1', 'the fbeta1 stream is skipped; as2pf itself is compared with the model as before')
    for _ in range(200 * mult if fbeta1 else 0):
        a = rng.uniform(-0.2, 0.2) if rng.random() < 0.8 else 10 ** rng.uniform(-6, 1)
        nf = rng.randint(0, 8)
        impl = float(fbeta1(a, nf))
        lines.append('c15.fbeta1 %s %s' % (f2hex(a), f2hex(nf)))
        meta.append(dict(kind='fbeta1', a=a, nf=nf, impl=impl))

    # ------------------------------------------------------------ as2pf over the property's box
    nbox = 8000 * mult
    for _ in range(nbox):
        p, nf, as0, r20, ratio = box_case(rng)
        r2 = r20 * ratio
        impl = call(qcd, p, nf, r2, as0, r20)
        lines.append('c15.as2pf %d %s %s %s %s' % (p, f2hex(nf), f2hex(r2), f2hex(as0), f2hex(r20)))
        meta.append(dict(kind='as2pf.box', p=p, nf=nf, r2=r2, as0=as0, r20=r20, impl=impl))
        rep.hist('box.order', p)
        rep.hist('box.nf', nf)
        rep.hist('box.log10_ratio', int(math.floor(math.log10(ratio))))
    # the same (p, as0, r20, r2) for every nf, and the same (nf, …) for both orders, in one session:
    # a memo keyed on part of the arguments shows only when the others are repeated
    for _ in range(60 * mult):
        p0, nf0, as0, r20, ratio = box_case(rng)
        r2 = r20 * ratio
        combos = [(p, nf) for p in (0, 1) for nf in (3, 4, 5, 6)]
        rng.shuffle(combos)
        for p, nf in combos:
            impl = call(qcd, p, nf, r2, as0, r20)
            lines.append('c15.as2pf %d %s %s %s %s' % (p, f2hex(nf), f2hex(r2), f2hex(as0), f2hex(r20)))
            meta.append(dict(kind='as2pf.box', p=p, nf=nf, r2=r2, as0=as0, r20=r20, impl=impl))
    # chains in which exactly ONE of the five arguments changes from one call to the next (r20, as0, r2, nf, p)
    for _ in range(60 * mult):
        p, nf, as0, r20, ratio = box_case(rng)
        r2 = r20 * ratio
        for _step in range(8):
            what = rng.choice(['r20', 'as0', 'r2', 'nf', 'p'])
            p2, nf2, as02, r202, ratio2 = box_case(rng)
            if what == 'r20' and not (0.2 <= r2 / r202 <= 1e6):
                what = 'r2'                                   # would leave the property's box
            if what == 'r20':
                r20 = r202
            elif what == 'as0':
                as0 = as02
            elif what == 'r2':
                r2 = r20 * ratio2
            elif what == 'nf':
                nf = nf2
            else:
                p = 1 - p
            rep.hist('chain.changed', what)
            impl = call(qcd, p, nf, r2, as0, r20)
            lines.append('c15.as2pf %d %s %s %s %s' % (p, f2hex(nf), f2hex(r2), f2hex(as0), f2hex(r20)))
            meta.append(dict(kind='as2pf.box', p=p, nf=nf, r2=r2, as0=as0, r20=r20, impl=impl))
    # reference scale exactly
    for p in (0, 1):
        for nf in (3, 4, 5, 6):
            for _ in range(5 * mult):
                as0, r20 = rng.uniform(0.005, 0.1), 10 ** rng.uniform(0, 2)
                impl = call(qcd, p, nf, r20, as0, r20)
                lines.append('c15.as2pf %d %s %s %s %s' % (p, f2hex(nf), f2hex(r20), f2hex(as0), f2hex(r20)))
                meta.append(dict(kind='as2pf.box', p=p, nf=nf, r2=r20, as0=as0, r20=r20, impl=impl))
    # wider than the box (correspondence only): other nf, large couplings, long / backward running
    for _ in range(500 * mult):
        p = rng.choice([0, 1])
        nf = rng.randint(0, 8)
        as0 = rng.choice([-1, 1]) * 10 ** rng.uniform(-4, 0.3) if rng.random() < 0.2 else 10 ** rng.uniform(-4, 0)
        r20 = 10 ** rng.uniform(-3, 4)
        r2 = r20 * 10 ** rng.uniform(-3, 12)
        impl = call(qcd, p, nf, r2, as0, r20)
        lines.append('c15.as2pf %d %s %s %s %s' % (p, f2hex(nf), f2hex(r2), f2hex(as0), f2hex(r20)))
        meta.append(dict(kind='as2pf.wide', p=p, nf=nf, r2=r2, as0=as0, r20=r20, impl=impl))
    # error branches
    errs = []
    for p in (-1, 0, 1, 2, 3, 7):
        for (r2, r20) in ((4.0, 0.0), (4.0, -0.0), (0.0, 2.0), (-3.0, 2.0), (3.0, -2.0), (-3.0, -2.0),
                          (8.0, 4.0), (float('nan'), 2.0)):
            errs.append((p, 3, r2, 0.05, r20))
    for nf in (3, 4, 5, 6):
        z = find_zero_denominator(nf)
        rep.hist('err.zero_denominator_found', z is not None)
        if z:
            errs.append((0, nf, z[0], z[1], z[2]))
            errs.append((1, nf, z[0], z[1], z[2]))
    for (p, nf, r2, as0, r20) in errs:
        impl = call(qcd, p, nf, r2, as0, r20)
        lines.append('c15.as2pf %d %s %s %s %s' % (p, f2hex(nf), f2hex(r2), f2hex(as0), f2hex(r20)))
        meta.append(dict(kind='as2pf.err', p=p, nf=nf, r2=r2, as0=as0, r20=r20, impl=impl))
        rep.hist('err.kind', impl if isinstance(impl, str) else 'value')

    # ------------------------------------------------------------ model vs code
    try:
        out = common.run_driver(lines)
    except common.ModelUnavailable as ex:
        # no model: nothing of the correspondence can be compared; every oracle stream below (reference scale, accuracy
        # against the ODE, two steps = one, monotone decrease) evaluates the property on the real code and runs regardless
        out = []
        rep.violation('model-unavailable', 'the Lean model of C15 could not be run (%s): beta/_fbeta1/as2pf were not compared with it; '
                      'the oracle streams ran' % str(ex)[:300], dict(reason=str(ex)[:300]), found_input=False)
    worst = {}
    for line, m, o in zip(lines, meta, out):
        kind, impl = m['kind'], m['impl']
        t = o.split()
        model = hex2f(t[1]) if t[0] == 'ok' else (hex2f(t[0]) if len(t[0]) == 16 and kind in ('beta', 'fbeta1') else o)
        if kind == 'beta':
            rep.case('beta', line, sample=dict(p=m['p'], nf=m['nf'], impl=impl))
            agree = (impl == model) if isinstance(impl, str) or isinstance(model, str) else relerr(impl, model) <= 1e-15
            if agree:
                continue
            # property oracle: the textbook coefficients
            found = False
            if m['p'] in (0, 1) and not isinstance(impl, str):
                refb = b0_ref(m['nf']) if m['p'] == 0 else b1_ref(m['nf'])
                found = relerr(impl, refb) > 1e-12
            elif m['p'] in (0, 1):
                found = True
            rep.violation('beta/p=%d' % m['p'], 'beta(%d, %d): code %r, model %r' % (m['p'], m['nf'], impl, model),
                          dict(call='gepard.qcd.beta(%d, %d)' % (m['p'], m['nf']), impl=impl, model=str(model),
                               required='beta0 = -(11 - 2nf/3), beta1 = -(102 - 38nf/3)', protocol_line=line),
                          found_input=found)
            continue
        if kind == 'fbeta1':
            rep.case('fbeta1', line, sample=dict(a=m['a'], nf=m['nf']))
            e = relerr(impl, model)
            if e <= 1e-14:
                continue
            refv = m['a'] ** 2 * (b0_ref(m['nf']) + m['a'] * b1_ref(m['nf']))
            rep.violation('fbeta1', '_fbeta1(%r, %d): code %r, model %r' % (m['a'], m['nf'], impl, model),
                          dict(call='gepard.qcd._fbeta1(%r, %d)' % (m['a'], m['nf']), impl=impl, model=model,
                               required=refv, protocol_line=line),
                          found_input=relerr(impl, refv, 1e-300) > 1e-10)
            continue
        # as2pf
        L = None
        if m['r20'] != 0 and m['r2'] == m['r2'] and m['r2'] / m['r20'] > 0:
            L = math.log(m['r2'] / m['r20'])
        rep.case(kind, line, nontrivial=True,
                 sample=dict(p=m['p'], nf=m['nf'], r2=m['r2'], as0=m['as0'], r20=m['r20'], impl=impl))
        if isinstance(impl, str) or isinstance(model, str):
            agree = impl == model
            if impl == 'OverflowError' and not isinstance(model, str) and not math.isfinite(model):
                agree = True          # float pow raises where IEEE gives inf; not modelled (outside the box)
                rep.hist('wide.overflow', 'OverflowError~nonfinite')
        else:
            e = relerr(impl, model)
            agree = e <= TOL_MODEL
            if not agree and min(abs(impl), abs(model)) > 10 * AMAX:
                # far beyond the property's domain (past the Landau pole) the blow-up amplifies the one-ulp
                # difference between libm and Lean's pow/log without bound; both sides agree that the value
                # is out of range, which is all that is compared there
                agree = True
                rep.hist('wide.beyond_domain', 'both > 10*AMAX')
            else:
                worst[kind] = max(worst.get(kind, 0.0), e if math.isfinite(e) else 0.0)
        if agree:
            continue
        # disagreement: evaluate the property itself at this input
        found, req = False, None
        inbox = (m['p'] in (0, 1) and m['nf'] in (3, 4, 5, 6) and 0.005 <= m['as0'] <= 0.1 and L is not None
                 and 1 <= m['r20'] <= 100 and 0.2 * (1 - 1e-12) <= m['r2'] / m['r20'] <= 1e6 * (1 + 1e-12))
        if inbox:
            req = reference(mp, m['p'], m['nf'], m['as0'], L)
            if req is not None and req <= AMAX:
                found = isinstance(impl, str) or relerr(impl, req) > TOL_PROP
            if m['r2'] == m['r20']:        # at the reference scale the reference value itself is required
                req = m['as0']
                found = isinstance(impl, str) or relerr(impl, req) > 1e-15
        rep.violation('%s/p=%s' % (kind, m['p']),
                      'as2pf(%d, %d, %r, %r, %r): code %r, model %r%s' % (
                          m['p'], m['nf'], m['r2'], m['as0'], m['r20'], impl, model,
                          '; accurate ODE solution %r' % req if req is not None else ''),
                      dict(call='gepard.qcd.as2pf(%d, %d, %r, %r, %r)' % (m['p'], m['nf'], m['r2'], m['as0'], m['r20']),
                           impl=impl, model=str(model), required=req, protocol_line=line), found_input=found)
    rep.coverage['worst_model_vs_code_relerr'] = worst

    # ------------------------------------------------------------ oracle: value at the reference scale
    for p in (0, 1):
        for nf in (3, 4, 5, 6):
            for _ in range(10 * mult):
                as0 = rng.choice([0.005, 0.1, rng.uniform(0.005, 0.1)])
                r20 = rng.choice([1.0, 100.0, 10 ** rng.uniform(0, 2)])
                v = call(qcd, p, nf, r20, as0, r20)
                rep.case('oracle.reference', (p, nf, as0, r20), sample=dict(p=p, nf=nf, as0=as0, r20=r20, got=v))
                if isinstance(v, str) or relerr(v, as0) > 1e-15:
                    rep.violation('reference/p=%d' % p,
                                  'as2pf(%d, %d, r20, %r, r20=%r) = %r, not the reference value' % (p, nf, as0, r20, v),
                                  dict(call='gepard.qcd.as2pf(%d, %d, %r, %r, %r)' % (p, nf, r20, as0, r20), impl=v,
                                       required=as0))

    # ------------------------------------------------------------ oracle: accuracy against the ODE
    nacc = 5000 * mult
    nimp = 0
    nodefun = 25 if quick else 300
    worst_acc = {0: 0.0, 1: 0.0}
    outside = 0
    for i in range(nacc):
        p, nf, as0, r20, ratio = box_case(rng)
        r2 = r20 * ratio
        L = math.log(ratio)
        b0, b1 = b0_ref(nf), (b1_ref(nf) if p == 1 else 0.0)
        ref = reference(mp, p, nf, as0, L)
        if ref is None or ref > AMAX:
            outside += 1
            rep.hist('accuracy.domain', 'outside (alpha_s/2pi > 0.12)')
            continue
        rep.hist('accuracy.domain', 'inside')
        # the references must agree among themselves, otherwise the machinery (not gepard) is broken
        if p == 1 and (i % 4 == 0):
            r2nd = 2 * implicit_ref(mp, b0, b1, as0 / 2, L)
            nimp += 1
            if relerr(ref, r2nd) > 1e-8:
                # the machinery, not gepard, is in doubt at this input: no verdict is drawn from it
                rep.hist('accuracy.references_disagree', 'fine RK4 vs implicit solution')
                rep.notes.append('references disagree (fine RK4 %r, implicit solution %r) at %r: case skipped' % (
                    ref, r2nd, (p, nf, as0, r20, ratio)))
                continue
        if nodefun > 0 and i % 7 == 0:
            nodefun -= 1
            r3 = 2 * odefun_ref(mp, b0, b1, as0 / 2, L)
            rep.hist('accuracy.odefun_checked', p)
            if relerr(ref, r3) > 1e-8:
                rep.hist('accuracy.references_disagree', 'fine RK4 vs mpmath.odefun')
                rep.notes.append('references disagree (fine RK4 %r, mpmath.odefun %r) at %r: case skipped' % (
                    ref, r3, (p, nf, as0, r20, ratio)))
                continue
        v = call(qcd, p, nf, r2, as0, r20)
        rep.case('oracle.accuracy', (p, nf, as0, r20, ratio),
                 sample=dict(p=p, nf=nf, as0=as0, r20=r20, r2=r2, got=v, ode=ref))
        e = float('inf') if isinstance(v, str) else relerr(v, ref)
        worst_acc[p] = max(worst_acc[p], e)
        rep.hist('accuracy.p=%d.log10_relerr' % p, 'exact' if e == 0 else int(math.floor(math.log10(e))))
        if e > TOL_PROP:
            rep.violation('accuracy/p=%d' % p,
                          'as2pf(%d, %d, %r, %r, %r) = %r differs from the RG-equation solution %r by %.3g relative '
                          '(> 1e-4)' % (p, nf, r2, as0, r20, v, ref, e),
                          dict(call='gepard.qcd.as2pf(%d, %d, %r, %r, %r)' % (p, nf, r2, as0, r20), impl=v,
                               required=ref, relerr=e))
    rep.coverage['worst_accuracy_relerr'] = {'LO': worst_acc[0], 'NLO': worst_acc[1]}
    rep.coverage['accuracy_cases_outside_domain'] = outside
    rep.coverage['implicit_solution_cross_checks'] = nimp

    # ------------------------------------------------------------ oracle: two steps = one step
    worst_two = {0: 0.0, 1: 0.0}
    for _ in range(2500 * mult):
        p, nf, as0, r20, ratio = box_case(rng)
        r2 = r20 * ratio
        # intermediate reference scale in [1,100] with both legs inside the ratio range, when possible
        lo1, hi1 = max(1.0, 0.2 * r20, r2 / 1e6), min(100.0, 1e6 * r20, r2 / 0.2)
        r1 = 10 ** rng.uniform(0, 2) if lo1 >= hi1 else math.exp(rng.uniform(math.log(lo1), math.log(hi1)))
        if not (0.2 <= r1 / r20 <= 1e6 and 0.2 <= r2 / r1 <= 1e6):
            rep.hist('twostep.domain', 'skipped: leg outside ratio range')
            continue
        a1 = call(qcd, p, nf, r1, as0, r20)
        one = call(qcd, p, nf, r2, as0, r20)
        if isinstance(a1, str) or isinstance(one, str) or not (0.005 <= a1 <= 0.1) or not (0 < one <= AMAX):
            rep.hist('twostep.domain', 'skipped: intermediate or final value outside the box')
            continue
        rep.hist('twostep.domain', 'inside')
        two = call(qcd, p, nf, r2, a1, r1)
        rep.case('oracle.twostep', (p, nf, as0, r20, r1, r2),
                 sample=dict(p=p, nf=nf, as0=as0, r20=r20, r1=r1, r2=r2, one=one, two=two))
        e = float('inf') if isinstance(two, str) else relerr(one, two)
        worst_two[p] = max(worst_two[p], e)
        if e > (TOL_LO2 if p == 0 else TOL_PROP):
            rep.violation('twostep/p=%d' % p,
                          'running %r -> %r -> %r gives %r, in one step %r (relative difference %.3g), '
                          'p=%d nf=%d as0=%r' % (r20, r1, r2, two, one, e, p, nf, as0),
                          dict(call='gepard.qcd.as2pf(%d, %d, %r, gepard.qcd.as2pf(%d, %d, %r, %r, %r), %r)' % (
                              p, nf, r2, p, nf, r1, as0, r20, r1), impl=two, required=one, relerr=e))
    rep.coverage['worst_twostep_relerr'] = {'LO': worst_two[0], 'NLO': worst_two[1]}

    # ------------------------------------------------------------ oracle: monotone decrease on grids
    ngrid = 120 if quick else 600
    sets = []
    for p in (0, 1):
        for nf in (3, 4, 5, 6):
            for as0 in [0.005, 0.1, rng.uniform(0.005, 0.1), rng.uniform(0.005, 0.1)] + \
                    ([] if quick else [rng.uniform(0.005, 0.1) for _ in range(8)]):
                sets.append((p, nf, as0, rng.choice([1.0, 100.0, 10 ** rng.uniform(0, 2)])))
    for (p, nf, as0, r20) in sets:
        lo, hi = math.log(0.2), math.log(1e6)
        ls = sorted([lo, hi, 0.0] + [rng.uniform(lo, hi) for _ in range(ngrid)])
        # close pairs as well: relative spacing 1e-6 in r2 still changes the result by ~1e-8 relative
        ls = sorted(ls + [x + 1e-6 for x in ls[5:-1:6]])
        prev = None
        for x in ls:
            r2 = r20 * math.exp(x)
            if not (0.2 <= r2 / r20 <= 1e6):
                r2 = r20 * (0.2 if x < 0 else 1e6)
            v = call(qcd, p, nf, r2, as0, r20)
            if isinstance(v, str) or not (0 < v <= AMAX):
                rep.hist('monotone.domain', 'skipped (> 0.12 or error)')
                prev = None
                continue
            rep.hist('monotone.domain', 'inside')
            rep.case('oracle.monotone', (p, nf, as0, r20, r2), sample=dict(p=p, nf=nf, as0=as0, r20=r20, r2=r2, got=v))
            if prev is not None and prev[0] < r2 and not (v < prev[1]):
                rep.violation('monotone/p=%d' % p,
                              'as2pf(%d, %d, r2, %r, %r) does not decrease: r2=%r -> %r, r2=%r -> %r' % (
                                  p, nf, as0, r20, prev[0], prev[1], r2, v),
                              dict(call='gepard.qcd.as2pf(%d, %d, r2, %r, %r) for r2 in (%r, %r)' % (
                                  p, nf, as0, r20, prev[0], r2), impl=[prev[1], v], required='strictly decreasing'))
            prev = (r2, v)

    if not ok and not rep.violations:
        rep.violation('lean', 'Lean side of C15 no longer checks: ' + why, dict(reason=why), found_input=False)
    rep.assumptions += [
        'model vs code: relative 1e-12 (same binary64 operation order; a**2 via libm pow and log may differ by an ulp, '
        'amplified through 20 RK4 steps by far less than 1e3)',
        'oracle accuracy: 1e-4 relative as stated by the property, reference = 400-step RK4 in pure Python with textbook '
        'beta0, beta1 (own error < 1e-9, cross-checked against the implicit exact solution and mpmath.odefun)',
        'domain: exact solution alpha_s/2pi <= 0.12; two-step legs keep reference scale in [1,100], ratios in '
        '[0.2,1e6] and the intermediate value in [0.005,0.1]',
        'LO two-step: 1e-12 (exact over R); NLO two-step: 1e-4 (the accuracy the property states)',
        'float pow OverflowError (|a| > 1e154, only past the Landau pole, outside the box) is not modelled: '
        'accepted against a non-finite model value',
    ]
    rep.notes += ['oracle.* streams evaluate the property on the real code against independent ODE solutions; they carry '
                  'the RK4 accuracy, NLO composition and NLO monotonicity in r2, which no theorem carries; they support, '
                  'not replace, the theorems of Props/C15.lean']
    return rep.finish(level='proof',
                      checker_cmd='lake build Props.C15; #print axioms; gepdriver c15.* vs gepard.qcd.beta/_fbeta1/as2pf; '
                                  'oracle streams vs fine RK4 / implicit solution / mpmath.odefun',
                      trusted=['Lean 4.33 kernel', 'Scalar/Coupling.lean.in instantiated at Float and ℝ (same text)',
                               'harness/props/C15.py (generators, tolerances, reference ODE solvers)',
                               'libm log / pow as used by CPython and by Lean Float'])


def replay(path):
    import json
    r = json.load(open(path))
    print(json.dumps({k: r[k] for k in ('call', 'impl', 'model', 'required', 'relerr', 'what') if k in r}, indent=1))
    c = r.get('call', '')
    if c.startswith('gepard.qcd.') and ' for ' not in c:
        import gepard  # noqa: F401
        try:
            print('now:', repr(eval(c, {'gepard': gepard})))
        except Exception as e:  # noqa: BLE001
            print('now raises:', type(e).__name__, e)
    return 0

"""Shared by C01 / C06 / C07 / C08: real theories with constant CFFs and form factors, random
physical kinematics, and serialisation of (Consts, CFFs, Pt) for the translated Bmk model."""
import json
import math
import os

import common
from common import f2hex

INFO = None
FORMULA_SETS = ['BMK', 'hotfixedBMK', 'BM10ex', 'BM10', 'BM10tw2']
LP_SETS = ['BM10ex', 'BM10', 'BM10tw2']


def info():
    global INFO
    if INFO is None:
        INFO = json.load(open(os.path.join(common.LEAN, 'Gen', 'Bmk.info.json')))
    return INFO


_cls = {}


def theory(fset, vals):
    """Theory(constant EFF, constant CFFs incl. effective ones, formula set) with the given values"""
    import gepard as g
    if fset not in _cls:
        names = list(g.CFF.allCFFs) + list(g.CFF.allCFFeffs)

        class ConstEFF(g.eff.EFF):
            def F1(self, pt):
                return self.parameters['F1']

            def F2(self, pt):
                return self.parameters['F2']

        class ConstCFFs(g.CFF):
            def __init__(self, **kwargs):
                self.add_parameters({n: 0.0 for n in names + ['F1', 'F2']})
                super().__init__(**kwargs)
        for n in names:
            exec("def %s(self, pt): return self.parameters['%s']" % (n, n))
            setattr(ConstCFFs, n, locals()[n])
        _cls[fset] = type('V_' + fset, (ConstEFF, ConstCFFs, getattr(g, fset)), {})
    th = _cls[fset]()
    th.parameters.update(vals)
    return th


def consts():
    from gepard.constants import GeV2nb, Mp, Mp2, alpha
    return [Mp, Mp2, alpha, GeV2nb]


def random_m(rng, real_cffs=False, zero_cffs=False, zero_eff=False, with_eff=True):
    m = {'F1': rng.uniform(-1, 2), 'F2': rng.uniform(-2, 2)}
    for n in ['ReH', 'ImH', 'ReE', 'ImE', 'ReHt', 'ImHt', 'ReEt', 'ImEt']:
        m[n] = 0.0 if zero_cffs or (real_cffs and n.startswith('Im')) else rng.uniform(-20, 20)
    for n in ['ReHeff', 'ImHeff', 'ReEeff', 'ImEeff', 'ReHteff', 'ImHteff', 'ReEteff', 'ImEteff']:
        m[n] = rng.uniform(-5, 5) if (with_eff and not zero_cffs and not (real_cffs and n.startswith('Im'))) else 0.0
    if zero_eff:
        m['F1'] = m['F2'] = 0.0
    return m


def random_kinematics(rng, collider=None):
    """a point inside the physical phase space: y < y_max, t_max < t < t_min"""
    import gepard as g
    from gepard.constants import Mp, Mp2
    for _ in range(1000):
        coll = rng.random() < 0.25 if collider is None else collider
        if coll:
            E1, E2 = rng.uniform(5, 30), rng.uniform(50, 920)
            s = 2 * E1 * (E2 + math.sqrt(E2 ** 2 - Mp2)) + Mp2
            kw = dict(exptype='collider', in1energy=E1, in2energy=E2)
        else:
            E1 = rng.uniform(4, 200) if rng.random() < 0.8 else rng.uniform(2, 12)
            s = 2 * Mp * E1 + Mp2
            kw = dict(exptype='fixed target', in1energy=E1)
        xB = 10 ** rng.uniform(-4, -0.2) if coll else rng.uniform(0.02, 0.7)
        y = rng.uniform(0.05, 0.9)
        Q2 = y * xB * (s - Mp2)
        if not (0.5 < Q2 < 1000):
            continue
        eps2 = 4 * xB ** 2 * Mp2 / Q2
        if 1 - y - y * y * eps2 / 4 <= 0.02:
            continue
        tmin = g.tmin(Q2, xB, eps2)
        tmax = g.tmax(Q2, xB, eps2)
        lo = max(tmax, -min(3.0, Q2))
        if lo >= tmin:
            continue
        t = tmin - (tmin - lo) * rng.uniform(0.02, 0.98) ** 2
        if not (lo < t < tmin) or t > -1e-4:
            continue
        kw.update(xB=xB, Q2=Q2, t=t, phi=rng.uniform(0, 2 * math.pi), process='ep2epgamma',
                  in1charge=rng.choice([-1, 1]), in1polarization=rng.choice([-1, 0, 1]),
                  in2particle=rng.choice(['p', 'n']))
        return kw
    raise RuntimeError('no kinematics found')


def prepared(kw, varphi=None):
    """DataPoint(**kw) prepared the way DVCS.XS does it"""
    import gepard as g
    pt = g.DataPoint(**kw)
    kin = pt.copy()
    if varphi is not None:
        kin.varphi = varphi
    kin.prepare()
    return pt, kin


def pt_values(kin):
    out = []
    for f in info()['pt_fields']:
        v = kin.get(f, 0.0)
        out.append(float(v))
    return out


def m_values(m):
    return [float(m.get(f, 0.0)) for f in info()['m_fields']]


def tokens(kin, m):
    return ' '.join(map(f2hex, consts() + m_values(m) + pt_values(kin)))

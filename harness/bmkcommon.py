"""Shared by C01 / C06 / C07 / C08: real theories with constant CFFs and form factors, random
physical kinematics, and serialisation of (Consts, CFFs, Pt) for the translated Bmk model."""
import json
import math
import os

import common
from common import f2hex

INFO = None
FORMULA_SETS = ['BMK', 'hotfixedBMK', 'BM10ex', 'BM10', 'BM10tw2']
LP_SETS = ['BM10ex', 'BM10', 'BM10tw2']


def in_real_code(e):
    """True when the exception was raised in a frame of the package under study (a traceback frame under REPO/src), False
    when it comes from the harness's own work (then it is a machinery fault, never a failing input of the property)"""
    import traceback
    src = os.path.join(common.REPO, 'src')
    return any(f.filename.startswith(src) for f in traceback.extract_tb(e.__traceback__))


def info():
    global INFO
    if INFO is None:
        INFO = json.load(open(os.path.join(common.LEAN, 'Gen', 'Bmk.info.json')))
    return INFO


_cls = {}


def theory(fset, vals):
    """Theory(constant EFF, constant CFFs incl. effective ones, formula set) with the given values"""
    import gepard as g
    if fset not in _cls:
        names = list(g.CFF.allCFFs) + list(g.CFF.allCFFeffs)

        class ConstEFF(g.eff.EFF):
            def F1(self, pt):
                return self.parameters['F1']

            def F2(self, pt):
                return self.parameters['F2']

        class ConstCFFs(g.CFF):
            def __init__(self, **kwargs):
                self.add_parameters({n: 0.0 for n in names + ['F1', 'F2']})
                super().__init__(**kwargs)
        for n in names:
            exec("def %s(self, pt): return self.parameters['%s']" % (n, n))
            setattr(ConstCFFs, n, locals()[n])
        _cls[fset] = type('V_' + fset, (ConstEFF, ConstCFFs, getattr(g, fset)), {})
    th = _cls[fset]()
    th.parameters.update(vals)
    return th


def consts():
    from gepard.constants import GeV2nb, Mp, Mp2, alpha
    return [Mp, Mp2, alpha, GeV2nb]


def random_m(rng, real_cffs=False, zero_cffs=False, zero_eff=False, with_eff=True):
    m = {'F1': rng.uniform(-1, 2), 'F2': rng.uniform(-2, 2)}
    for n in ['ReH', 'ImH', 'ReE', 'ImE', 'ReHt', 'ImHt', 'ReEt', 'ImEt']:
        m[n] = 0.0 if zero_cffs or (real_cffs and n.startswith('Im')) else rng.uniform(-20, 20)
    for n in ['ReHeff', 'ImHeff', 'ReEeff', 'ImEeff', 'ReHteff', 'ImHteff', 'ReEteff', 'ImEteff']:
        m[n] = rng.uniform(-5, 5) if (with_eff and not zero_cffs and not (real_cffs and n.startswith('Im'))) else 0.0
    if zero_eff:
        m['F1'] = m['F2'] = 0.0
    return m


def random_kinematics(rng, collider=None):
    """a point inside the physical phase space: y < y_max, t_max < t < t_min"""
    import gepard as g
    from gepard.constants import Mp, Mp2
    for _ in range(1000):
        coll = rng.random() < 0.25 if collider is None else collider
        if coll:
            E1, E2 = rng.uniform(5, 30), rng.uniform(50, 920)
            s = 2 * E1 * (E2 + math.sqrt(E2 ** 2 - Mp2)) + Mp2
            kw = dict(exptype='collider', in1energy=E1, in2energy=E2)
        else:
            E1 = rng.uniform(4, 200) if rng.random() < 0.8 else rng.uniform(2, 12)
            s = 2 * Mp * E1 + Mp2
            kw = dict(exptype='fixed target', in1energy=E1)
        xB = 10 ** rng.uniform(-4, -0.2) if coll else rng.uniform(0.02, 0.7)
        y = rng.uniform(0.05, 0.9)
        Q2 = y * xB * (s - Mp2)
        if not (0.5 < Q2 < 1000):
            continue
        eps2 = 4 * xB ** 2 * Mp2 / Q2
        if 1 - y - y * y * eps2 / 4 <= 0.02:
            continue
        tmin = g.tmin(Q2, xB, eps2)
        tmax = g.tmax(Q2, xB, eps2)
        lo = max(tmax, -min(3.0, Q2))
        if lo >= tmin:
            continue
        t = tmin - (tmin - lo) * rng.uniform(0.02, 0.98) ** 2
        if not (lo < t < tmin) or t > -1e-4:
            continue
        kw.update(xB=xB, Q2=Q2, t=t, phi=rng.uniform(0, 2 * math.pi), process='ep2epgamma',
                  in1charge=rng.choice([-1, 1]), in1polarization=rng.choice([-1, 0, 1]),
                  in2particle=rng.choice(['p', 'n']))
        return kw
    raise RuntimeError('no kinematics found')


def prepared(kw, varphi=None):
    """DataPoint(**kw) prepared the way DVCS.XS does it"""
    import gepard as g
    pt = g.DataPoint(**kw)
    kin = pt.copy()
    if varphi is not None:
        kin.varphi = varphi
    kin.prepare()
    return pt, kin


def pt_values(kin):
    out = []
    for f in info()['pt_fields']:
        v = kin.get(f, 0.0)
        out.append(float(v))
    return out


def m_values(m):
    return [float(m.get(f, 0.0)) for f in info()['m_fields']]


def tokens(kin, m):
    return ' '.join(map(f2hex, consts() + m_values(m) + pt_values(kin)))


def entry_correspondence(rep, rng, npts, tol=1e-10, sets=None):
    """every translated coefficient / term and the XS assembly, all formula sets, versus the real code.
    Returns the list of disagreements (kind, set, entry, code value, model value, kinematics, model values)."""
    import gepard as g
    from common import hex2f, relerr
    I = info()
    rep.coverage['translated_definitions'] = I['ndefs']
    rep.coverage['translator_rejected'] = I['rejected']
    try:
        rep.coverage['generated_symmetry_lemmas'] = open(common.LEAN + '/Gen/BmkSymR.lean').read().count('theorem ')
    except OSError:
        pass
    lines, meta = [], []
    for i in range(npts):
        fset = rng.choice(sets or FORMULA_SETS)
        m = random_m(rng)
        th = theory(fset, m)
        kw = random_kinematics(rng)
        pt, kin = prepared(kw, varphi=rng.uniform(0, 2 * math.pi))
        # the SAME prepared point object is evaluated with two different sets of CFF / form-factor values
        # (anything memoised on the point from the first evaluation would leak into the second)
        for rnd in range(2):
            if rnd == 1:
                m = random_m(rng)
                th = theory(fset, m)
            tok = tokens(kin, m)
            for e in I['entries'][fset]:
                try:
                    v = float(getattr(th, e)(kin))
                except Exception as ex:
                    v = 'EXC:' + type(ex).__name__
                lines.append('c06.eval %s %s %s' % (fset, e, tok))
                meta.append(('entry', fset, e, v, kw, m))
        for target in (['U', 'L', 'T'] if fset in LP_SETS else ['U', 'T']):
            kk = dict(kw)
            if target != 'U':
                kk['in2polarizationvector'] = target
                kk['in2polarization'] = rng.choice([-1, 1])
            if target == 'T':
                kk['varFTn'] = rng.choice([-1, 1])
            weighted = rng.random() < 0.3
            p2 = g.DataPoint(**kk)
            try:
                v = float(th.XS(p2, weighted=weighted))
            except ValueError:
                v = 'ValueError'
            except Exception as ex:
                v = 'EXC:' + type(ex).__name__
            k2 = p2.copy()
            if target == 'T':
                k2.varphi = (1 - kk['varFTn']) * math.pi / 4.
            k2.prepare()
            lines.append('c06.xs %s %d %d %s %s' % (fset, 'ULT'.index(target), weighted, f2hex(kk.get('in2polarization', 0)), tokens(k2, m)))
            meta.append(('xs', fset, target, v, kk, m))
        # kinematics.prepare itself: raw point -> prepared fields
        raw = g.DataPoint(**kw)
        rawk = raw.copy()
        rawk.varphi = kin.varphi
        if not hasattr(rawk, 's'):
            from gepard.constants import Mp, Mp2
            rawk.s = (2 * Mp * rawk.in1energy + Mp2) if rawk.exptype == 'fixed target' else (
                2 * rawk.in1energy * (rawk.in2energy + math.sqrt(rawk.in2energy ** 2 - Mp2)) + Mp2)
        lines.append('c06.prepare ' + tokens(rawk, m))
        meta.append(('prepare', fset, 'prepare', pt_values(kin), kw, m))
    try:
        out = common.run_driver(lines)
    except common.ModelUnavailable as ex:
        rep.coverage['model_unavailable'] = str(ex)[:500]
        return [('model-unavailable', 'all', str(ex)[:300], None, None, {}, {})]
    worst = 0.0
    broken = []
    for line, (kind, fset, e, v, kw, m), o in zip(lines, meta, out):
        rep.case(kind, (fset, e, line[-40:]), sample=dict(kind=kind, set=fset, entry=e, value=v if kind != 'prepare' else 'fields') if len(rep.coverage['samples']) < 4 else None)
        if kind == 'prepare':
            if o == 'bad-op':
                broken.append((kind, fset, e, 'fields', o, kw, m))
                continue
            mv = [hex2f(x) for x in o.split()]
            names = I['pt_fields']
            for nme, a, b in zip(names, v, mv):
                if nme in ('r', 'chi', 'chi0'):
                    continue
                r = relerr(a, b, 1e-300)
                worst = max(worst, r)
                if r > tol:
                    broken.append((kind, fset, 'prepare.' + nme, a, b, kw, m))
                    break
            continue
        if isinstance(v, str) or o in ('bad-op', 'no-such-entry', 'ValueError'):
            if v == o:
                continue
            broken.append((kind, fset, e, v, o, kw, m))
            continue
        r = relerr(v, hex2f(o))
        worst = max(worst, r)
        if r > tol:
            broken.append((kind, fset, e, v, hex2f(o), kw, m))
    rep.coverage['max_model_vs_code_relerr'] = worst
    return broken

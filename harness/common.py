"""Shared machinery for the per-property checks (see DESIGN.md §1).

A property check = (1) Lean side: (re)generate translated models from /repo, `lake build`
the property's theorem module, forbidden-token grep, `#print axioms` audit;
(2) correspondence: run the real gepard code and the Lean executable model on the same
operations and diff; (3) when (1) or (2) breaks, or always for the part of a property the
theorems cannot carry, a failing-input search against the real code.
"""
from __future__ import annotations

import glob
import hashlib
import json
import os
import random
import re
import struct
import subprocess
import sys
import time

VERIF = os.path.dirname(os.path.dirname(os.path.abspath(__file__)))
LEAN = os.path.join(VERIF, 'lean')
REPO = os.environ.get('GEPARD_REPO', '/repo')
os.makedirs(os.path.join(VERIF, 'replays'), exist_ok=True)      # scratch + replay files (not committed)
PYDEPS = os.path.join(VERIF, '.pydeps')
ALLOWED_AXIOMS = {'propext', 'Classical.choice', 'Quot.sound'}
FORBIDDEN = re.compile(r'\b(sorry|admit|native_decide|bv_decide|implemented_by|unsafe)\b|^\s*axiom\s|maxHeartbeats\s+0\b')

# the working tree of /repo is what gets imported, never an installed copy
sys.path.insert(0, os.path.join(REPO, 'src'))
if os.path.isdir(PYDEPS):
    sys.path.append(PYDEPS)
os.environ.setdefault('GEPARD_VERIF', '1')


def seed() -> int:
    try:
        return int(os.environ.get('VERIF_SEED', '0'))
    except ValueError:
        return 0


def f2hex(x: float) -> str:
    return struct.pack('>d', float(x)).hex()


def hex2f(s: str) -> float:
    return struct.unpack('>d', bytes.fromhex(s))[0]


def relerr(a: float, b: float, scale: float = 0.0) -> float:
    """|a-b| / max(|a|,|b|,scale); 0 if both are exactly equal (also inf/nan patterns)."""
    if a == b or (a != a and b != b):
        return 0.0
    d = max(abs(a), abs(b), scale)
    if d == 0 or d != d:
        return float('inf')
    return abs(a - b) / d


class Timeout(Exception):
    pass


def sh(cmd, cwd=None, timeout=3600, input=None, env=None):
    e = dict(os.environ)
    if env:
        e.update(env)
    try:
        p = subprocess.run(cmd, cwd=cwd, input=input, capture_output=True, text=True,
                           timeout=timeout, env=e)
    except subprocess.TimeoutExpired:
        raise Timeout(' '.join(cmd) if isinstance(cmd, list) else cmd)
    return p.returncode, p.stdout, p.stderr


# ----------------------------------------------------------------------------------
# Lean side
# ----------------------------------------------------------------------------------

def strip_comments(src: str) -> str:
    """Remove Lean block comments (nested) and line comments."""
    out = []
    i, depth, n = 0, 0, len(src)
    while i < n:
        if src.startswith('/-', i):
            depth += 1
            i += 2
        elif depth and src.startswith('-/', i):
            depth -= 1
            i += 2
        elif depth:
            if src[i] == '\n':
                out.append('\n')
            i += 1
        elif src.startswith('--', i):
            while i < n and src[i] != '\n':
                i += 1
        else:
            out.append(src[i])
            i += 1
    return ''.join(out)


def lean_files():
    for sub in ('Model', 'Gen', 'Proofs', 'Props', 'Driver', 'Audit'):
        d = os.path.join(LEAN, sub)
        for root, _, files in os.walk(d):
            for f in sorted(files):
                if f.endswith('.lean'):
                    yield os.path.join(root, f)


def forbidden_tokens():
    hits = []
    for path in lean_files():
        src = strip_comments(open(path).read())
        for ln, line in enumerate(src.splitlines(), 1):
            if FORBIDDEN.search(line):
                hits.append('%s:%d: %s' % (os.path.relpath(path, LEAN), ln, line.strip()))
    return hits


def theorem_names(prop: str):
    """Names of the theorems declared in Props/<prop>.lean (with namespace).  `prop` may also be `CxxSrc`."""
    path = os.path.join(LEAN, 'Props', prop + '.lean')
    src = strip_comments(open(path).read())
    ns = []
    names = []
    for line in src.splitlines():
        m = re.match(r'\s*namespace\s+(\S+)', line)
        if m:
            ns.append(m.group(1))
            continue
        m = re.match(r'\s*end\s+(\S+)', line)
        if m and ns and ns[-1] == m.group(1):
            ns.pop()
            continue
        m = re.match(r'\s*(?:@\[[^\]]*\]\s*)?(?:private\s+|protected\s+)?theorem\s+(\S+)', line)
        if m:
            names.append('.'.join(ns + [m.group(1)]))
    return names


def lake_build(targets, timeout=3000):
    t0 = time.time()
    rc, out, err = sh(['lake', 'build'] + list(targets), cwd=LEAN, timeout=timeout)
    return rc == 0, (out + err), time.time() - t0


def lean_audit(prop: str, with_src=False):
    """#print axioms for every theorem in Props/<prop>.lean.
    Returns (ok, {theorem: [axioms]}, log)."""
    names = theorem_names(prop) + (theorem_names(prop + 'Src') if with_src else [])
    if not names:
        return False, {}, 'no theorems found in Props/%s.lean' % prop
    src = 'import Props.%s\n' % (prop + 'Src' if with_src else prop) + ''.join('#print axioms %s\n' % n for n in names)
    tmp = os.path.join(LEAN, '.audit_%s_%d.lean' % (prop, os.getpid()))
    open(tmp, 'w').write(src)
    try:
        rc, out, err = sh(['lake', 'env', 'lean', tmp], cwd=LEAN, timeout=1800)
    finally:
        os.remove(tmp)
    res = {}
    text = out + err
    # "'name' depends on axioms: [a, b]"  or "'name' does not depend on any axioms"
    for m in re.finditer(r"'([^']+)' depends on axioms: \[([^\]]*)\]", text, re.S):
        res[m.group(1)] = [a.strip() for a in m.group(2).replace('\n', ' ').split(',') if a.strip()]
    for m in re.finditer(r"'([^']+)' does not depend on any axioms", text):
        res[m.group(1)] = []
    ok = rc == 0 and all(n in res for n in names) and all(
        set(ax) <= ALLOWED_AXIOMS for ax in res.values())
    return ok, res, text if not ok else ''


class ModelUnavailable(Exception):
    """the executable model for these operations could not be built (e.g. the regenerated model
    no longer compiles): the caller falls back to its failing-input search, never a verdict by itself"""


_driver_built = set()


def _run_exe(prefix, lines, timeout):
    name = 'drv_' + prefix.upper()
    exe = os.path.join(LEAN, '.lake', 'build', 'bin', name)
    if name not in _driver_built:
        with lean_lock():
            ok, log, _ = lake_build([name])
        if not ok:
            errs = [l for l in log.splitlines() if 'error' in l][:6]
            raise ModelUnavailable('%s does not build: %s' % (name, ' | '.join(errs)))
        _driver_built.add(name)
    data = '\n'.join(lines) + '\n'
    rc, out, err = sh([exe], cwd=LEAN, input=data, timeout=timeout)
    if rc != 0:
        raise RuntimeError('driver %s failed rc=%d: %s' % (name, rc, err[-2000:]))
    res = out.splitlines()
    if len(res) != len(lines):
        raise RuntimeError('driver %s returned %d lines for %d ops' % (name, len(res), len(lines)))
    return res


def run_driver(lines, timeout=1800):
    """Feed protocol lines to the Lean model drivers (one executable per property, chosen by the
    operation prefix `cNN.`); returns the list of output lines in the order of the input."""
    groups = {}
    for k, line in enumerate(lines):
        groups.setdefault(line.split('.', 1)[0], []).append(k)
    out = [None] * len(lines)
    for prefix, idx in groups.items():
        for k, o in zip(idx, _run_exe(prefix, [lines[k] for k in idx], timeout)):
            out[k] = o
    return out


# ----------------------------------------------------------------------------------
# reporting
# ----------------------------------------------------------------------------------

def load_known():
    path = os.path.join(VERIF, 'known_findings.json')
    if not os.path.exists(path):
        return {'findings': [], 'fixed': []}
    return json.load(open(path))


class Report:
    """Collects what one run of one property check did and writes evidence / replays."""

    def __init__(self, prop: str, tier: str):
        self.prop, self.tier = prop, tier
        self.t0 = time.time()
        self.seed = seed()
        self.rng = random.Random(self.seed * 1000003 + int(prop[1:]))
        self.coverage = {'samples': []}
        self.assumptions = []
        self.obligations = 0
        self.discharged = 0
        self.violations = []      # (key, what, replay dict)
        self.known_hit = []
        self.notes = []
        self.evaluations = 0
        self.distinct = set()
        self.streams = {}
        self.known = [k for k in load_known().get('findings', []) if k.get('property') == prop]

    # -- counting ------------------------------------------------------------
    def case(self, stream: str, key, nontrivial=True, sample=None):
        self.evaluations += 1
        s = self.streams.setdefault(stream, {'cases': 0, 'nontrivial': 0})
        s['cases'] += 1
        if nontrivial:
            h = hashlib.sha1(repr((stream, key)).encode()).hexdigest()[:16]
            if h not in self.distinct:
                self.distinct.add(h)
                s['nontrivial'] += 1
        if sample is not None and len([x for x in self.coverage['samples']
                                       if isinstance(x, dict) and x.get('stream') == stream]) < 3:
            self.coverage['samples'].append({'stream': stream, 'case': sample})

    def hist(self, name: str, key):
        h = self.coverage.setdefault('distribution', {}).setdefault(name, {})
        h[str(key)] = h.get(str(key), 0) + 1

    # -- violations ----------------------------------------------------------
    def violation(self, key: str, what: str, replay: dict, found_input=True):
        """key identifies the failing input class (matched against known_findings.json)."""
        for k in self.known:
            if k.get('key') == key or (k.get('key_prefix') and key.startswith(k['key_prefix'])):
                if key not in [x[0] for x in self.known_hit]:
                    self.known_hit.append((key, k.get('what', what)))
                return
        if any(v[0] == key for v in self.violations):
            return
        replay = dict(replay)
        replay.update({'property': self.prop, 'key': key, 'what': what,
                       'seed': self.seed, 'tier': self.tier,
                       'failing_input_found': bool(found_input)})
        self.violations.append((key, what, replay, found_input))

    # -- output --------------------------------------------------------------
    def finish(self, level='proof', checker_cmd='', trusted=None, explanation=''):
        cov = self.coverage
        cov['evaluations'] = self.evaluations
        cov['distinct_nontrivial'] = len(self.distinct)
        cov['streams'] = self.streams
        cov['obligations'] = self.obligations
        cov['discharged'] = self.discharged
        cov['checker_cmd'] = checker_cmd
        cov['trusted_base'] = trusted or []
        cov['traces_validated_against_impl'] = self.evaluations
        cov.setdefault('rule', 'see streams; a case is non-trivial when it exercises the modelled '
                       'operation on a distinct input (hash of the canonical input)')
        if explanation:
            cov['explanation'] = explanation
        if self.notes:
            cov['notes'] = self.notes
        if not cov['samples']:
            cov['samples'] = ['(no sample recorded)']
        rc = 0
        os.makedirs(os.path.join(VERIF, 'replays', self.prop), exist_ok=True)
        for note in self.notes:
            # what the run could not do as planned (a translator that does not recognise the source, a private helper
            # that was renamed, reviewer examples that no longer elaborate): visible, never a verdict
            print('NOTE %s: %s' % (self.prop, str(note)[:300]))
        for key, what in self.known_hit:
            print('KNOWN-FINDING: property=%s %s' % (self.prop, what))
        for key, what, replay, found in self.violations:
            h = hashlib.sha1(key.encode()).hexdigest()[:12]
            path = os.path.join('replays', self.prop, h + '.json')
            json.dump(replay, open(os.path.join(VERIF, path), 'w'), indent=1, default=str)
            print('VIOLATION property=%s replay=%s%s' % (
                self.prop, path, '' if found else ' no-failing-input-found'))
            print('  ' + what)
            rc = 1
        ev = {'property_id': self.prop, 'tier': self.tier, 'seed': self.seed, 'level': level,
              'coverage': cov, 'assumptions': self.assumptions,
              'wall_s': round(time.time() - self.t0, 2), 'violations': len(self.violations),
              'known_findings_reported': [k for k, _ in self.known_hit]}
        os.makedirs(os.path.join(VERIF, 'evidence'), exist_ok=True)
        json.dump(ev, open(os.path.join(VERIF, 'evidence', self.prop + '.json'), 'w'),
                  indent=1, default=str)
        print('%s %s tier=%s seed=%d: obligations %d/%d, cases %d (distinct non-trivial %d), '
              'violations %d, known %d, %.1fs' % (
                  'OK' if rc == 0 else 'FAIL', self.prop, self.tier, self.seed, self.discharged,
                  self.obligations, self.evaluations, len(self.distinct), len(self.violations),
                  len(self.known_hit), time.time() - self.t0))
        return rc


def private(rep, obj, name, what):
    """a PRIVATE helper of the package (leading underscore) that a stream looks at directly: such names are not part
    of any property, a clean-up may rename them.  Returns the attribute, or None after noting that the stream
    `what` is skipped / falls back (never a violation by itself: the public behaviour is checked elsewhere)."""
    f = getattr(obj, name, None)
    if f is None:
        msg = 'private helper %s.%s no longer exists (renamed?): %s' % (getattr(obj, '__name__', type(obj).__name__), name, what)
        if msg not in rep.notes:
            rep.notes.append(msg)
        rep.hist('private-helper-missing', name)
    return f


import contextlib


@contextlib.contextmanager
def lean_lock():
    """serialise everything that writes under lean/ (regeneration, lake) across concurrently running checks:
    an exclusive advisory lock on lean/.verif.lock (re-entrant within one process)"""
    import fcntl
    global _lock_depth
    if _lock_depth > 0:
        _lock_depth += 1
        try:
            yield
        finally:
            _lock_depth -= 1
        return
    fd = os.open(os.path.join(LEAN, '.verif.lock'), os.O_CREAT | os.O_RDWR, 0o644)
    try:
        fcntl.flock(fd, fcntl.LOCK_EX)
        _lock_depth = 1
        yield
    finally:
        _lock_depth = 0
        try:
            fcntl.flock(fd, fcntl.LOCK_UN)
        finally:
            os.close(fd)


_lock_depth = 0


def lean_imports(module, seen=None):
    """transitive closure of the project-local imports of a Lean module (names like 'Gen.BmkR')"""
    seen = set() if seen is None else seen
    if module in seen:
        return seen
    seen.add(module)
    path = os.path.join(LEAN, *module.split('.')) + '.lean'
    if not os.path.exists(path):
        return seen
    for line in open(path, encoding='utf-8'):
        if line.startswith('import '):
            for m in line.split()[1:]:
                if m.split('.')[0] in ('Model', 'Gen', 'Proofs', 'Props', 'Driver'):
                    lean_imports(m, seen)
    return seen


def lean_side(rep: Report, prop: str, regen=None):
    """Regenerate translated models (if any), build the property's theorems, audit.
    Returns (ok, reason).  Never reports a violation by itself."""
    with lean_lock():
        r = _lean_side(rep, prop, regen)
        # the driver of this property is built now too, under the same lock (it imports what was just regenerated)
        try:
            if ('drv_' + prop) not in _driver_built:
                okd, logd, _ = lake_build(['drv_' + prop])
                if okd:
                    _driver_built.add('drv_' + prop)
        except Exception:
            pass
        return r


def _lean_side(rep: Report, prop: str, regen=None):
    reasons = []
    try:
        sys.path.insert(0, os.path.join(VERIF, 'tools'))
        import regen as _regen
        _regen.main()
        if regen:
            regen(rep)
        # a generator that rejected the source leaves its outputs stale: that concerns the properties whose
        # theorems (transitively) import one of those outputs, and only them
        st = json.load(open(os.path.join(LEAN, 'Gen', 'regen_status.json')))
        failed = {g: v for g, v in st['status'].items() if v != 'ok'}
        if failed:
            deps = lean_imports('Props.' + prop) | lean_imports('Driver.' + prop)
            for g, why in failed.items():
                hit = [m for m in st['outputs'].get(g, []) if m in deps]
                if hit:
                    reasons.append('translator %s rejected the source (%s): %s not regenerated' % (g, why, ', '.join(hit)))
                else:
                    rep.notes.append('generator %s failed (%s); Props.%s does not depend on its output' % (g, why[:120], prop))
    except Exception as e:  # translator rejected the source
        reasons.append('translator: %r' % (e,))
    ok, log, secs = lake_build(['Props.' + prop])
    # the reviewer's examples (lean/Audit/<prop>_*.lean: non-vacuity instances, witnesses, strengthened variants) are built
    # too; they are written against the generated definitions as they are today and are NOT property theorems: one that
    # no longer elaborates after a change of the source is recorded in the evidence, it does not fail the check
    audit_mods = sorted('Audit.' + os.path.basename(f)[:-5] for f in glob.glob(os.path.join(LEAN, 'Audit', prop + '_*.lean')))
    audit_failed = []
    if ok:
        for am in audit_mods:
            aok, alog_, _ = lake_build([am])
            if not aok:
                audit_failed.append(am)
    rep.coverage['audit_modules'] = {'built': [a for a in audit_mods if a not in audit_failed], 'no_longer_elaborate': audit_failed}
    if audit_failed:
        rep.notes.append('reviewer examples that no longer elaborate against the current source: ' + ', '.join(audit_failed))
    rep.coverage['lake_build_s'] = round(secs, 1)
    names = theorem_names(prop)
    # SECOND TIE (Props/<prop>Src.lean, where it exists): statements that the hand-written model equals the formulas a
    # small translator re-reads from the current source.  A translator that does not recognise the shape of the source
    # makes the second tie UNAVAILABLE (recorded; the run-time correspondence still ties model and code, as it does for
    # every other property); a translator that succeeds while a statement fails means a formula changed its value.
    with_src = False
    src_mod = 'Props.%sSrc' % prop
    if ok and os.path.exists(os.path.join(LEAN, 'Props', prop + 'Src.lean')):
        try:
            st = json.load(open(os.path.join(LEAN, 'Gen', 'regen_status.json')))
        except Exception:
            st = {'status': {}, 'outputs': {}}
        sdeps = lean_imports(src_mod)
        bad_gen = {g: v for g, v in st['status'].items()
                   if v != 'ok' and any(m in sdeps for m in st['outputs'].get(g, []))}
        if bad_gen:
            why2 = '; '.join('%s: %s' % kv for kv in bad_gen.items())
            rep.coverage['second_tie'] = {'status': 'unavailable', 'why': why2[:400]}
            rep.notes.append('second tie unavailable (the source-reading translator does not recognise the current '
                             'shape of the source: %s); the run-time correspondence is what ties model and code in this run' % why2[:200])
        else:
            ok2, log2, secs2 = lake_build([src_mod])
            if ok2:
                with_src = True
                names = names + theorem_names(prop + 'Src')
                rep.coverage['second_tie'] = {'status': 'checked', 'theorems': theorem_names(prop + 'Src')}
            else:
                errs2 = [l for l in log2.splitlines() if 'error' in l][:6]
                rep.coverage['second_tie'] = {'status': 'BROKEN', 'errors': errs2}
                reasons.append('second tie: a formula read from the current source no longer equals the model (lake build %s failed: %s)'
                               % (src_mod, ' | '.join(errs2)))
    rep.obligations = len(names)
    if not ok:
        errs = [l for l in log.splitlines() if 'error' in l][:8]
        reasons.append('lake build Props.%s failed: %s' % (prop, ' | '.join(errs)))
        rep.coverage['theorems'] = {n: 'NOT CHECKED (build failed)' for n in names}
        return False, '; '.join(reasons)
    bad = forbidden_tokens()
    if bad:
        reasons.append('forbidden tokens: ' + '; '.join(bad[:5]))
    aok, axioms, alog = lean_audit(prop, with_src)
    rep.coverage['theorems'] = {n: axioms.get(n, 'MISSING') for n in names}
    if not aok:
        reasons.append('axiom audit failed: ' + alog[-500:])
    rep.discharged = sum(1 for n in names if n in axioms and set(axioms[n]) <= ALLOWED_AXIOMS) \
        if not bad else 0
    if rep.tier == 'thorough':
        rc, out, err = sh(['lake', 'env', 'leanchecker', 'Props.' + prop] + ([src_mod] if with_src else []), cwd=LEAN, timeout=3000)
        rep.coverage['leanchecker'] = 'ok' if rc == 0 else ('FAILED: ' + (out + err)[-300:])
        if rc != 0:
            reasons.append('leanchecker failed')
    return (not reasons), '; '.join(reasons)
